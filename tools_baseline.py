#!/usr/bin/env python3
"""Compare a pytest junit xml with the stable_pass list of /root/.vp/BASELINE.json."""
import json, sys, xml.etree.ElementTree as ET
base = json.load(open("/root/.vp/BASELINE.json"))
t = ET.parse(sys.argv[1]).getroot()
res = {}
for tc in t.iter("testcase"):
    name = tc.get("classname") + "::" + tc.get("name")
    bad = any(c.tag in ("failure", "error") for c in tc)
    skipped = any(c.tag == "skipped" for c in tc)
    prev = res.get(name)
    st = "fail" if bad else ("skip" if skipped else "pass")
    if prev == "fail":
        st = "fail"
    res[name] = st
missing = [n for n in base["stable_pass"] if res.get(n) != "pass"]
print("stable_pass:", len(base["stable_pass"]), "passing now:", len(base["stable_pass"]) - len(missing))
for n in missing:
    print("  NOT PASSING:", n, res.get(n))
newpass = [n for n in base["always_fail"] if res.get(n) == "pass"]
print("always_fail now passing:", newpass)
sys.exit(1 if missing else 0)
