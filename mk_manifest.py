#!/usr/bin/env python3
"""Regenerates MANIFEST.json from the table below (keeps it schema-valid at all times)."""
import json
import os

HERE = os.path.dirname(os.path.abspath(__file__))
PY = "/venv/bin/python"

# id -> (technique, level text, level note, design ref)
CHECKS = {
    "C13": ("Hypothesis RuleBasedStateMachine (call / mutate returned object / re-call / flush cache) against references computed by fresh interpreters with different hash seeds and call orders",
            "Histories of API calls interleaved with caller-side mutations of everything the library returned and with cache flushes are generated "
            "and shrunk as one value; after every call the canonical result must equal what 8-16 fresh interpreters (different PYTHONHASHSEED, "
            "different call orders) agree on, inputs are snapshotted before/after each call, and every call whose result was mutated is re-issued "
            "at the end of the history; after every call the caller's own argument objects are modified and the result must not follow. Histories run in forked children of a worker that never called the library (hermetic, cold start).",
            "Trusted: canonicalisation of results to JSON; cold cache = cleared module-level cache dicts; finite catalogue (~450 calls), histories up to 30/60 steps.",
            "DESIGN.md §4 C13"),
    "C10": ("Hypothesis states (Clifford+T, continuous rotations, GHZ/W templates, mixtures by injection) per configuration; exact outcome statistics from a dense simulator fed through a duck-typed result; oracle Tr(rho P) for all 4^n Paulis",
            "The tomography circuits the library returns are simulated exactly and the fitter's 4^n expectation values and density matrix are compared "
            "with dense algebra (1e-9). One Hypothesis search per configuration (all 20 in every run); the operator-space rank of the sampled states is "
            "reported (full rank 4^n for n<=3 in quick, n<=4 in thorough), which with linearity of the fitter extends exactness to all states there; a generic state per configuration and in-process sequences over the configurations of n are part of every run; statistics are handed over as probabilities, rescaled floats and exact integer counts.",
            "Trusted: dense simulator and its little-endian conventions (self-tested). A continuum is sampled; mixed states are injected behind an empty preparation circuit.",
            "DESIGN.md §4 C10"),
    "C11": ("Hypothesis: register size, ORDERED qubit lists (sorted/reversed/mirror-symmetric/generic), configuration, entangled states; oracle: partial trace in list order, both APIs, reduced and full-register mode",
            "For generated ordered sublists of registers of up to 8 qubits the fitters' outputs are compared with the partial trace of the dense state "
            "in list order; non-trivial cases are those where the oracle itself distinguishes the listed order from the sorted and the mirrored list.",
            "Trusted: dense simulator / partial trace (self-tested against full-register expectations). Plain integer qubit lists only.",
            "DESIGN.md §4 C11"),
    "C12": ("Hypothesis (stabilizer member x state) per configuration + all groups n=2,3; exact statistics; oracle <psi|P|psi> over the unsigned span of the given generators",
            "Stabilizer-measurement circuits are simulated exactly; the fitter must report exactly the 2^n unsigned group elements with Tr(rho P). "
            "Stabilizers come from every configuration with random signs, bases and formats, including one member of every (configuration, LC class), so every table circuit serves as readout once per run; states are non-eigenstates with continuous parameters.",
            "Trusted: dense simulator, own span enumeration. Sampled states.",
            "DESIGN.md §4 C12"),
    "C07": ("Hypothesis gate sequences (0..300 gates, macros for redundant patterns) x configurations, collect-then-shrink, vs. dense-simulation fidelity, coupling table, LC-oracle class cost and input snapshot",
            "Random and structured Clifford circuits over the documented gate set are compressed; input and output states are compared by a "
            "from-scratch dense simulator, the output is checked against the coupling table and the class cost, and the input object is "
            "snapshotted before/after. Sampling of an unbounded domain: evidence reports the length, class and configuration histograms.",
            "Trusted: dense simulator, LC-orbit oracle, strict table parser. Circuits are sampled (all lengths 0..300, all 20 configurations).",
            "DESIGN.md §4 C07"),
    "C08": ("exhaustive small matrices (n=2 all, n=3 all in thorough) + Hypothesis near-miss distributions + full product of entry points x names, vs. brute-force validity and outcome classification",
            "Every request is classified as raised/returned; a returned preparation circuit for an invalid set is a violation outright, returned "
            "circuits are verified by dense simulation / propagation, validate() is compared with a brute-force oracle, and every entry point is "
            "driven through {0..8} x 19 names. Exceptions are the contract, so only wrong returns and wrong accept/reject decisions count.",
            "Trusted: brute-force validity oracle, dense simulator. Arbitrary (non-near-miss) matrices are generated for n<=4 only, because the layer "
            "search needs exponential time/memory on unstructured 5-6 qubit input (performance, not part of the property); a 15 s / 6 GB guard "
            "turns such calls into 'inconclusive', never into a verdict.",
            "DESIGN.md §4 C08"),
    "C14": ("Hypothesis over string lists (valid and arbitrary), circuits; exhaustive graphs n<=4; round-trip / mirror / differential oracles with own parser and dense simulator",
            "String -> object -> string round trips, the mirrored export, matrices <-> strings, graph generators X_v Z_N(v), and circuit inputs "
            "(every exported signed string must stabilise the independently simulated state; signed canonical form equal to the tableau-free "
            "oracle group) are checked on generated inputs of all four formats.",
            "Trusted: own Pauli parser / signed RREF canonical form, dense simulator.",
            "DESIGN.md §4 C14"),
    "C15": ("exhaustive pairs of groups (n=2,3), exhaustive groups x qubits (n<=4), Hypothesis pairs with planted equal / one-generator-apart groups, vs. RREF canonical form and brute-force span",
            "is_equivalent_mod_phase is compared with equality of canonical forms on all 18 450 ordered pairs for n<=3 (random bases, signs, "
            "formats) and on generated pairs for n=4..6; expand() and is_qubit_entangled are compared with brute-force span enumeration on every "
            "group for n<=4, constructed members of every class for n=5,6 and named textbook states in several random generator bases.",
            "Trusted: own canonical form and span enumeration.",
            "DESIGN.md §4 C15"),
    "C16": ("exhaustive (n=2 operator sets; all groups x all graphs n<=3 quick / n<=4 thorough) + Hypothesis (uniform / planted / corrupted) vs. brute force over all 6^n layers",
            "Every call of the layer search is compared with a numpy-vectorised brute force over all 6^n local Clifford layers: None exactly when "
            "no layer exists, a returned layer must be admissible and among the solutions, and the generated gate list must act on X_q, Z_q as "
            "the blocks say. Both branches are generated constructively (planted solutions, corrupted solutions, foreign classes).",
            "Trusted: brute-force enumeration; bitmask conjugation rules. Operator sets with very few operators on 5-6 qubits are excluded from the "
            "generator (the library enumerates 2^(kernel dimension) combinations there); a 30 s guard makes such calls inconclusive.",
            "DESIGN.md §4 C16"),
    "C01": ("exhaustive sweep (n<=3 all signs; n<=5 in thorough) + class-stratified constructed members (n=5,6) + Hypothesis over formats/bases/circuit inputs, vs. dense state-vector simulation",
            "Every returned preparation circuit is simulated by a from-scratch dense simulator and every given signed operator must stabilise the "
            "result. Quick enumerates all groups for n<=3 with all sign vectors and all 2295 four-qubit groups; thorough enumerates all groups n<=4 "
            "with all sign vectors and all 75 735 five-qubit groups on all configurations; n=6 is covered by constructed members of all 760 classes "
            "on all 7 configurations, the canonical generators of the graph stored in each of the 5962 table entries, named textbook states in uniform frames, multi-register / metadata-carrying circuit inputs, and a deferred re-verification of circuits handed out earlier. Exhaustive on the enumerated part, sampled (stratified, every class x configuration hit) beyond it.",
            "Trusted: dense simulator (literal matrices); qiskit's instruction reporting. Six-qubit groups, generator bases and formats are sampled.",
            "DESIGN.md §4 C01"),
    "C02": ("generated circuits of every API kind (stratified members, all MUB circuits, Hypothesis ordered qubit subsets) inspected against a transcribed edge table",
            "Instruction lists of preparation, readout, compressed, MUB, tomography and stabilizer-measurement circuits are checked against an edge "
            "table typed in from the documentation; coupling graphs and MUB circuits exhaustively, the others for at least one member of every "
            "(configuration, class) and for Hypothesis-drawn ordered subsets of registers up to 8 qubits.",
            "Trusted: transcription of the documented coupling graphs; sampled members / subsets.",
            "DESIGN.md §4 C02"),
    "C03": ("exhaustive sweep (n<=4 quick, n<=5 thorough) + class-stratified members, vs. symplectic propagation of all 2^n group elements; metamorphic sign-independence",
            "All 2^n signed elements of every generated group are conjugated through the returned readout circuit with independently validated "
            "rules; the X part must vanish. The same generators with another sign vector must give the identical instruction list, and the inverse "
            "circuit is dense-simulated. Exhaustive for n<=4 (quick) / n<=5 (thorough), stratified for n=6.",
            "Trusted: bitmask conjugation rules (checked against dense matrices each run).",
            "DESIGN.md §4 C03"),
    "C04": ("metamorphic: constructed members of one LC class must agree with each other and with lookup metadata (own gate counter / ASAP depth)",
            "For every (configuration, class) several members with independent local Cliffords, bases and signs are sent through preparation, "
            "readout and compression; two-qubit count, depth and the multiset of two-qubit instructions must equal the metadata / table line "
            "of the class determined by the independent LC oracle; every graph on n<=5 vertices (and drawn six-vertex graphs) is additionally presented literally in graph form.",
            "Trusted: LC-orbit oracle, own gate counter; members are sampled (every class x configuration hit in every run).",
            "DESIGN.md §4 C04"),
    "C06": ("exhaustive enumeration of all stabilizer groups (n<=5 quick, n<=6 thorough) + class-stratified construction vs. LC-orbit oracle (bijection id <-> orbit)",
            "Quick visits every stabilizer group on 2..5 qubits and ~50k constructed six-qubit groups covering all 760 orbits; thorough "
            "enumerates all 4 922 775 six-qubit groups. The partition induced by the library's id must equal the partition into "
            "local-complementation orbits of the graph form (both directions), ids must be exactly 0..K-1, representation-independent.",
            "Trusted: Van den Nest theorem (LC-equivalence = local-complementation orbit), own group enumeration (count-checked), LC oracle self-test.",
            "DESIGN.md §4 C06"),
    "C05": ("exhaustive BFS on the LC-class quotient graph (all classes x coupled pairs x 36 local pairs) + witness circuits + Hypothesis competitor circuits (metamorphic: compressed cost <= k)",
            "The minimum two-qubit count of every class on every connectivity is computed by complete breadth-first search and compared with all "
            "5962 table entries and with delivered circuits of representatives and constructed members; every gap is confirmed by a witness circuit "
            "validated by dense simulation and by the library's own compression. 570 genuine gaps are listed as known findings (keyed by entry and "
            "counts), so any other gap, or a listed one getting worse, is a violation.",
            "Trusted: the pencil-and-paper reduction of 'all competitor circuits' to the class graph (DESIGN §4 C05), LC-orbit oracle; the competitor-circuit relation and the witnesses do not depend on them.",
            "DESIGN.md §4 C05"),
    "C18": ("exhaustive enumeration of all small matrices + Hypothesis (4 distributions, collect-then-shrink) vs. brute-force span/kernel oracle",
            "All 35 978 binary matrices with m*n <= 12 are enumerated in every run and larger shapes (up to 40 x 28, the shapes the "
            "layer search uses) are sampled by Hypothesis; outputs are compared with an independent bitmask elimination that is itself "
            "cross-checked by brute-force span/kernel enumeration; a share of the cases is preceded by calls on related matrices (reshaped, transposed, re-typed, one bit flipped). Decides the property on the enumerated domain, samples beyond it.",
            "Trusted: numpy integer arithmetic; own elimination (validated by brute force on every small case).",
            "DESIGN.md §4 C18"),
    "C19": ("exhaustive enumeration of all graphs x vertices, class ids and codec indices vs. adjacency-bitmask oracle",
            "Every graph on 2..6 vertices, every vertex, every class id and every grouping index is visited in every run; finite domain, "
            "complete enumeration, independent re-implementation of the documented bit layout and of local complementation; plus Hypothesis sequences of graph operations against a bitmask model with compress()/decompress() after every step.",
            "Trusted: adjacency-bitmask oracle (self-tested); in the quick tier the library classifier is re-run on every n<=5 graph and 1/8 of the n=6 graphs.",
            "DESIGN.md §4 C19"),
    "C09": ("exhaustive enumeration of all 20 MUB families x bases x group elements vs. Pauli-algebra oracle and gate counter",
            "All 744 bases of all 20 configurations and all 2^n elements of each are enumerated in every run: validity, partition of the "
            "4^n-1 Paulis, diagonalisation by the index-aligned circuit, info dictionary vs. recount, cost vs. the library's readout circuit; plus in-process sequences over all configurations in shuffled orders.",
            "Trusted: bitmask Pauli algebra (validated against dense matrices each run), own gate counter.",
            "DESIGN.md §4 C09"),
    "C17": ("exhaustive enumeration of all table lines + differential parser + dense-simulation / LC-orbit oracle",
            "Every line of every stabilizer table on disk is visited in every run (exhaustive=true); each is checked "
            "against a from-scratch tokenizer, dense simulator, LC-orbit oracle and gate counter, and the library's own record of the line (StabilizerCircuitInfo / stabilizer_circuit_lookup) is compared with the strict parse. Exhaustive over a "
            "finite domain, so the property is decided for the tree as it stands.",
            "Trusted: own dense simulator / LC oracle (self-tested per run), Van den Nest theorem, transcribed coupling table.",
            "DESIGN.md §4 C17"),
}

PENDING_REASON = "check not built yet (work in progress; see DESIGN.md for the planned generator and oracle)"


def main():
    props = [json.loads(l)["id"] for l in open(os.path.join(HERE, "properties.jsonl"))]
    checks = []
    for pid in props:
        if pid not in CHECKS:
            continue
        tech, text, note, ref = CHECKS[pid]
        checks.append({
            "property_id": pid,
            "quick_cmd": f"{PY} check.py {pid} --tier quick",
            "thorough_cmd": f"{PY} check.py {pid} --tier thorough",
            "evidence_file": f"evidence/{pid}.json",
            "replay_cmd_template": f"{PY} check.py {pid} --replay {{path}}",
            "engine": "pbt",
            "level_claimed": {"category": "exploration", "text": text, "design_ref": ref},
            "level_note": note,
            "technique": tech,
        })
    manifest = {
        "version": 1,
        "setup_cmd": f"{PY} -c 'import hypothesis' 2>/dev/null || /venv/bin/pip install --no-index --find-links /opt/veriftools/wheels hypothesis",
        "hooks": {
            "guard": "HTSTABILIZER_VERIF",
            "enable": "no hooks: all observations go through the public API and the instruction lists of returned circuits; the guard variable is read by no source line",
            "baseline_off_cmd": "cd /repo && /venv/bin/python -m pytest -ra -q -p no:cacheprovider --timeout=900 --continue-on-collection-errors",
            "source_commits": [],
            "add_only": True,
        },
        "engines": [{
            "name": "pbt",
            "path": "check.py",
            "serves_properties": [c["property_id"] for c in checks],
            "kind_free_text": "property-based testing: exhaustive enumeration of finite domains, class-stratified "
                              "constructive generation and Hypothesis (incl. RuleBasedStateMachine) against independent "
                              "oracles (dense simulator, bitmask Pauli algebra, LC-orbit oracle, brute force)",
        }],
        "checks": checks,
        "not_applicable": [{"property_id": p, "reason": PENDING_REASON} for p in props if p not in CHECKS],
        "notes": "Run with /venv/bin/python; library imported from ${VERIF_REPO:-/repo}/src (current working tree, nothing to build). "
                 "VERIF_SEED seeds every random choice. Exit 2 = harness error.",
    }
    with open(os.path.join(HERE, "MANIFEST.json"), "w") as f:
        json.dump(manifest, f, indent=1)
        f.write("\n")


if __name__ == "__main__":
    main()
