#!/usr/bin/env python3
"""Regenerates MANIFEST.json from the table below (keeps it schema-valid at all times)."""
import json
import os

HERE = os.path.dirname(os.path.abspath(__file__))
PY = "/venv/bin/python"

# id -> (technique, level text, level note, design ref)
CHECKS = {
    "C17": ("exhaustive enumeration of all table lines + differential parser + dense-simulation / LC-orbit oracle",
            "Every line of every stabilizer table on disk is visited in every run (exhaustive=true); each is checked "
            "against a from-scratch tokenizer, dense simulator, LC-orbit oracle and gate counter. Exhaustive over a "
            "finite domain, so the property is decided for the tree as it stands.",
            "Trusted: own dense simulator / LC oracle (self-tested per run), Van den Nest theorem, transcribed coupling table.",
            "DESIGN.md §4 C17"),
}

PENDING_REASON = "check not built yet (work in progress; see DESIGN.md for the planned generator and oracle)"


def main():
    props = [json.loads(l)["id"] for l in open(os.path.join(HERE, "properties.jsonl"))]
    checks = []
    for pid in props:
        if pid not in CHECKS:
            continue
        tech, text, note, ref = CHECKS[pid]
        checks.append({
            "property_id": pid,
            "quick_cmd": f"{PY} check.py {pid} --tier quick",
            "thorough_cmd": f"{PY} check.py {pid} --tier thorough",
            "evidence_file": f"evidence/{pid}.json",
            "replay_cmd_template": f"{PY} check.py {pid} --replay {{path}}",
            "engine": "pbt",
            "level_claimed": {"category": "exploration", "text": text, "design_ref": ref},
            "level_note": note,
            "technique": tech,
        })
    manifest = {
        "version": 1,
        "setup_cmd": f"{PY} -c 'import hypothesis' 2>/dev/null || /venv/bin/pip install --no-index --find-links /opt/veriftools/wheels hypothesis",
        "hooks": {
            "guard": "HTSTABILIZER_VERIF",
            "enable": "no hooks: all observations go through the public API and the instruction lists of returned circuits; the guard variable is read by no source line",
            "baseline_off_cmd": "cd /repo && /venv/bin/python -m pytest -ra -q -p no:cacheprovider --timeout=900 --continue-on-collection-errors",
            "source_commits": [],
            "add_only": True,
        },
        "engines": [{
            "name": "pbt",
            "path": "check.py",
            "serves_properties": [c["property_id"] for c in checks],
            "kind_free_text": "property-based testing: exhaustive enumeration of finite domains, class-stratified "
                              "constructive generation and Hypothesis (incl. RuleBasedStateMachine) against independent "
                              "oracles (dense simulator, bitmask Pauli algebra, LC-orbit oracle, brute force)",
        }],
        "checks": checks,
        "not_applicable": [{"property_id": p, "reason": PENDING_REASON} for p in props if p not in CHECKS],
        "notes": "Run with /venv/bin/python; library imported from ${VERIF_REPO:-/repo}/src (current working tree, nothing to build). "
                 "VERIF_SEED seeds every random choice. Exit 2 = harness error.",
    }
    with open(os.path.join(HERE, "MANIFEST.json"), "w") as f:
        json.dump(manifest, f, indent=1)
        f.write("\n")


if __name__ == "__main__":
    main()
