"""Observation layer: the only place where the checks touch htstabilizer / qiskit objects.

The library is imported from ${VERIF_REPO:-/repo}/src, placed first on sys.path, so every run executes
the current working tree (nothing to build).
"""
import os
import sys

REPO = os.environ.get("VERIF_REPO", "/repo")
SRC = os.path.join(REPO, "src")
if SRC not in sys.path:
    sys.path.insert(0, SRC)
os.environ.setdefault("QISKIT_PARALLEL", "FALSE")
os.environ.setdefault("RAYON_NUM_THREADS", "1")
os.environ.setdefault("OMP_NUM_THREADS", "1")
os.environ.setdefault("OPENBLAS_NUM_THREADS", "1")

import numpy as np  # noqa: E402

_loaded = {}


def lib():
    """Namespace with the public modules of the library under test."""
    if _loaded:
        return _loaded["ns"]
    import types
    import htstabilizer
    assert os.path.realpath(htstabilizer.__file__).startswith(os.path.realpath(SRC)), \
        f"htstabilizer imported from {htstabilizer.__file__}, expected {SRC}"
    from htstabilizer import (stabilizer_circuits, stabilizer, graph, lc_classes, circuit_lookup,
                              connectivity_support, mub_circuits, find_local_clifford_layer,
                              f2_algebra, linear_index, rotate_stabilizer_into_state, tomography)
    import qiskit
    ns = types.SimpleNamespace(
        sc=stabilizer_circuits, st=stabilizer, graph=graph, lc=lc_classes, lookup=circuit_lookup,
        conn=connectivity_support, mub=mub_circuits, fl=find_local_clifford_layer, f2=f2_algebra,
        li=linear_index, rot=rotate_stabilizer_into_state, tomo=tomography,
        Stabilizer=stabilizer.Stabilizer, Graph=graph.Graph, QuantumCircuit=qiskit.QuantumCircuit,
        qiskit=qiskit, datadir=os.path.join(SRC, "htstabilizer", "data"))
    _loaded["ns"] = ns
    return ns


def ops_of(qc, with_matrix=False):
    """Instruction list of a QuantumCircuit as plain data: [(name, (qubit indices), (params))]."""
    out = []
    for inst in qc.data:
        op = inst.operation
        qs = tuple(qc.find_bit(q).index for q in inst.qubits)
        name = op.name
        params = tuple(float(p) for p in op.params) if op.params else ()
        from oracle import dense
        if name in dense.ONE or name in dense.TWO or name in dense.PARAM or name in dense.SKIP:
            out.append((name, qs, params))
        else:
            mat = None
            try:
                mat = np.asarray(op.to_matrix())
            except Exception:
                mat = None
            out.append((name, qs, params, mat))
    return out


def plain_ops(ops):
    """JSON-able (name, qubits) list"""
    return [[o[0], list(o[1])] + ([list(o[2])] if len(o) > 2 and o[2] else []) for o in ops]


def idiomatic(ops, salt):
    """The same Clifford circuit written with other qiskit idioms (the library accepts 'a QuantumCircuit that has only Clifford
    gates'): runs of Pauli gates on distinct qubits as one `pauli` instruction (label little-endian: last character acts on the
    first listed qubit), h-s-h as sx, h-sdg-h as sxdg, sdg(t)-cx(c,t)-s(t) as cy, barriers, and a chunk of consecutive gates
    wrapped into a sub-circuit appended as a gate / instruction on its qubits.  Plain ops stay the oracle's description; all
    choices come from random.Random(salt).  Returns extended ops: additionally ('pauli', qs, (label,)), ('sx'|'sxdg', (q,)),
    ('cy', (c, t)), ('barrier', ()), ('sub', qs, (subops, as_gate))."""
    import random
    rng = random.Random(int(salt))
    ops = [(o[0], tuple(o[1])) for o in ops]
    out = []
    i = 0
    while i < len(ops):
        name, qs = ops[i]
        # sx / sxdg / cy peepholes
        if i + 2 < len(ops) and name == "h" and ops[i + 2] == ("h", qs) and ops[i + 1] in (("s", qs), ("sdg", qs)) and rng.random() < 0.8:
            out.append(("sx" if ops[i + 1][0] == "s" else "sxdg", qs)); i += 3; continue
        if i + 2 < len(ops) and name == "sdg" and ops[i + 1][0] == "cx" and ops[i + 1][1][1] == qs[0] and ops[i + 2] == ("s", qs) and rng.random() < 0.8:
            out.append(("cy", ops[i + 1][1])); i += 3; continue
        if name in ("x", "y", "z"):
            j, seen, run = i, set(), []
            while j < len(ops) and ops[j][0] in ("x", "y", "z") and ops[j][1][0] not in seen:
                seen.add(ops[j][1][0]); run.append(ops[j]); j += 1
            if len(run) >= 2 and rng.random() < 0.8:
                rng.shuffle(run)            # Paulis on distinct qubits commute up to nothing at all
                out.append(("pauli", tuple(o[1][0] for o in run), ("".join(o[0].upper() for o in reversed(run)),)))
                i = j; continue
        out.append((name, qs)); i += 1
    # wrap one chunk of plain gates into a sub-circuit
    if len(out) >= 2 and rng.random() < 0.6:
        a = rng.randrange(len(out)); b = min(len(out), a + rng.randrange(1, 7))
        chunk = out[a:b]
        if all(o[0] not in ("pauli", "barrier") for o in chunk):
            qs = []
            for o in chunk:
                for q in o[1]:
                    if q not in qs:
                        qs.append(q)
            rng.shuffle(qs)
            pos = {q: k for k, q in enumerate(qs)}
            subops = [(o[0], tuple(pos[q] for q in o[1])) for o in chunk]
            out[a:b] = [("sub", tuple(qs), (subops, rng.random() < 0.5))]
    for _ in range(rng.randrange(0, 3)):
        out.insert(rng.randrange(len(out) + 1), ("barrier", ()))
    return out


def build_circuit(n, ops, registers=None, metadata=None, form_salt=0):
    """QuantumCircuit from plain ops (name, qubits[, params]) over the documented vocabulary.  `registers` = list of register
    sizes summing to n (qubit indices in ops stay circuit-wide indices); `metadata` = dict put on the circuit; `form_salt` != 0
    writes the same circuit with other qiskit idioms (see idiomatic)."""
    L = lib()
    if form_salt:
        ops = idiomatic(ops, form_salt)
    if registers and len(registers) > 1 and sum(registers) == n:
        from qiskit import QuantumRegister
        qc = L.QuantumCircuit(*[QuantumRegister(sz, f"r{i}") for i, sz in enumerate(registers)])
    else:
        qc = L.QuantumCircuit(n)
    if metadata is not None:
        qc.metadata = dict(metadata)
    for op in ops:
        name, qs = op[0], tuple(op[1])
        params = tuple(op[2]) if len(op) > 2 and op[2] else ()
        if name == "id":
            qc.id(qs[0])
        elif name == "barrier":
            qc.barrier()
        elif name == "sub":
            subops, as_gate = op[2]
            sc = L.QuantumCircuit(len(qs))
            for so in subops:
                if so[0] == "id":
                    sc.id(so[1][0])
                else:
                    getattr(sc, so[0])(*so[1])
            qc.append(sc.to_gate() if as_gate else sc.to_instruction(), list(qs))
        elif name == "pauli":
            qc.pauli(params[0], list(qs))
        else:
            getattr(qc, name)(*params, *qs)
    return qc


def paulis_to_strings(gens, n, sign="always"):
    from oracle import pauli
    out = []
    for g in gens:
        s = pauli.to_str(g, n, sign=True)
        if sign == "never":
            assert g[0] == 0
            s = s[1:]
        elif sign == "minimal" and g[0] == 0:
            s = s[1:]
        out.append(s)
    return out


def paulis_to_matrices(gens, n, dtype=np.int8):
    """R, S (n x n, column j = generator j, row i = qubit i) and phases, as documented in Stabilizer."""
    R = np.zeros((n, n), dtype=dtype)
    S = np.zeros((n, n), dtype=dtype)
    ph = np.zeros(n, dtype=dtype)
    for j, (s, x, z) in enumerate(gens):
        ph[j] = s
        for i in range(n):
            R[i, j] = (x >> i) & 1
            S[i, j] = (z >> i) & 1
    return R, S, ph


def stabilizer_to_paulis(stab):
    """Read R/S/phases of a library Stabilizer back into (s, x, z) triples."""
    n = stab.num_qubits
    out = []
    for j in range(n):
        x = z = 0
        for i in range(n):
            x |= (int(stab.R[i, j]) & 1) << i
            z |= (int(stab.S[i, j]) & 1) << i
        out.append((int(stab.phases[j]) & 1, x, z))
    return out


# ---- resource guard for calls that may blow up on degenerate input ---------------------------
class GuardTimeout(Exception):
    """raised inside a library call that exceeded the harness' time guard (never a verdict)"""


def limit_memory(gb=4):
    import resource
    try:
        soft, hard = resource.getrlimit(resource.RLIMIT_AS)
        resource.setrlimit(resource.RLIMIT_AS, (int(gb * (1 << 30)), hard))
    except Exception:  # noqa: BLE001
        pass


def guarded(fn, seconds=15):
    """run fn() with a wall-clock guard; GuardTimeout is raised inside fn when it expires"""
    import signal

    def handler(signum, frame):
        raise GuardTimeout(f"library call exceeded the harness guard of {seconds}s")
    old = signal.signal(signal.SIGALRM, handler)
    signal.setitimer(signal.ITIMER_REAL, seconds)
    try:
        return fn()
    finally:
        signal.setitimer(signal.ITIMER_REAL, 0)
        signal.signal(signal.SIGALRM, old)
