#!/usr/bin/env python3
"""Own sensitivity battery: textual mutants of the library (from DESIGN.md §4), each applied to a scratch worktree and run
against the quick tier of the checks that should notice.  Output: one line per (mutant, check).  Results are recorded in
SENSITIVITY.md by hand.  usage: tools_mutants_batch.py [name-substring ...]"""
import subprocess
import sys
import os

S = "src/htstabilizer/"
M = [
    ("C01-drop-string-reversal", S + "rotate_stabilizer_into_state.py", "target.to_list(qiskit_convention=True)", "target.to_list()", ["C01"]),
    ("C01-skip-x-correction-gen0", S + "rotate_stabilizer_into_state.py", "        if p.phase == 2:\n            pauli_layer.x(index)", "        if p.phase == 2 and index != 0:\n            pauli_layer.x(index)", ["C01"]),
    ("C01-hs-sh-swapped", S + "find_local_clifford_layer.py", "        elif c == [1, 1, 1, 0]:  # HS\n            qc.s(i)\n            qc.h(i)", "        elif c == [1, 1, 1, 0]:  # HS\n            qc.h(i)\n            qc.s(i)", ["C01", "C03", "C16"]),
    ("C03-no-inverse-for-5T", S + "stabilizer_circuits.py", "    return _get_preparation_circuit_modulo_phase(stabilizer, connectivity).inverse()",
     "    qc = _get_preparation_circuit_modulo_phase(stabilizer, connectivity)\n    return qc if (connectivity == \"T\") else qc.inverse()", ["C03", "C09"]),
    ("C04-sign-repair-adds-cz", S + "rotate_stabilizer_into_state.py", "    if not found_phase_mismatch:\n        return circuit\n\n    result = circuit.compose(pauli_layer, front=True, inplace=inplace)\n    # if inplace is False, compose() returns None\n    return circuit if result is None else result\n\n    \"\"\"\n    XX,YY",
     "    if not found_phase_mismatch:\n        return circuit\n    pauli_layer.cz(0, 1)\n    pauli_layer.cz(0, 1)\n\n    result = circuit.compose(pauli_layer, front=True, inplace=inplace)\n    # if inplace is False, compose() returns None\n    return circuit if result is None else result\n\n    \"\"\"\n    XX,YY", ["C04", "C02"]),
    ("C06-A_n-21-vs-24", S + "lc_classes.py", "    if A_n == 21:", "    if A_n == 21 and not (stabilizer.phases[0] and stabilizer.phases[5]):", ["C06"]),
    ("C06-from_1122-offbyone", S + "linear_index.py", "    return 3*i + d - c - 1\n", "    return 3*i + d - c - 1 if i != 7 else 3*i + (d - c) % 3\n", ["C06", "C19"]),
    ("C19-to_122-mod6", S + "linear_index.py", "    c = (a + 2 + index % 3) % 5", "    c = (a + 2 + index % 3) % 6", ["C19", "C06"]),
    ("C19-lc-diag", S + "graph.py", "        self.adjacency_matrix ^= col.T @ col\n        for i in range(self.num_vertices):\n            self.adjacency_matrix[i, i] = 0", "        self.adjacency_matrix ^= col.T @ col\n        for i in range(1, self.num_vertices):\n            self.adjacency_matrix[i, i] = 0", ["C19"]),
    ("C07-compress-drops-phases", S + "stabilizer_circuits.py", "    return rotate_stabilizer_into_state(optimized_circuit, circuit, inplace=True)", "    s = Stabilizer(circuit)\n    return rotate_stabilizer_into_state(optimized_circuit, Stabilizer((s.R, s.S)), inplace=True)", ["C07"]),
    ("C08-validate-rank", S + "stabilizer.py", "        return rank == self.num_qubits and not", "        return rank >= self.num_qubits - 1 and not", ["C08"]),
    ("C08-ladder-for-5", S + "connectivity_support.py", "(num_qubits == 5 and connectivity in [\"all\", \"linear\", \"star\", \"cycle\", \"T\",  \"Q\"])", "(num_qubits == 5 and connectivity in [\"all\", \"linear\", \"star\", \"cycle\", \"T\",  \"Q\", \"ladder\"])", ["C08"]),
    ("C09-header", S + "data/mub5-T.txt", "146:5:4", "146:6:4", ["C09"]),
    ("C09-average", S + "mub_circuits.py", "mub_info.total_cost / info[\"num circuits\"]", "mub_info.total_cost / 2**mub_info.num_qubits", ["C09"]),
    ("C10-parity-or", S + "tomography.py", "if (s & result.bitstring).bit_count() & 1:", "if (s | result.bitstring).bit_count() & 1:", ["C10", "C12"]),
    ("C10-no-reverse", S + "tomography.py", "    l.reverse()\n", "", ["C10", "C12"]),
    ("C11-half-defect", S + "tomography.py", "key[-1 - index] for index in reversed(qubits)", "key[-1 - index] for index in qubits", ["C11", "C10"]),
    ("C12-phase-test", S + "tomography.py", "(1 if z_pauli.phase == 0 else -1)", "(1 if z_pauli.phase != 2 or i == 5 else -1)", ["C12", "C10"]),
    ("C13-no-copy-mub", S + "circuit_lookup.py", "    return mubInfo.copy()", "    return mubInfo", ["C13"]),
    ("C13-lookup-no-copy", S + "circuit_lookup.py", "    return copy.copy(circuitInfos[lc_class_id])", "    return circuitInfos[lc_class_id]", ["C13"]),
    ("C14-chs", S + "stabilizer.py", "chs = [\"I\", \"X\", \"Z\", \"Y\"]", "chs = [\"I\", \"X\", \"Y\", \"Z\"]", ["C14", "C01"]),
    ("C14-phase-index", S + "stabilizer.py", "return [phs[self.phases[j]] + ", "return [phs[self.phases[(j if j < 5 else 0)]] + ", ["C14", "C01"]),
    ("C15-entangled-skips-last", S + "stabilizer.py", "        for i in range(0, self.num_qubits):\n            pauli = (self.R[qubit, i] << 1)", "        for i in range(0, self.num_qubits - (1 if self.num_qubits == 6 else 0)):\n            pauli = (self.R[qubit, i] << 1)", ["C15", "C06"]),
    ("C16-validity-filter", S + "find_local_clifford_layer.py", "            if c1 ^ c2 == 0:", "            if c1 | c2 == 0:", ["C16", "C01"]),
    ("C17-cost-column", S + "data/stabilizer6-E.txt", "8:3:3:h1 cx1,0 cx1,4 h1 h2 h3 h4 h5 cz0,1 ", "8:4:3:h1 cx1,0 cx1,4 h1 h2 h3 h4 h5 cz0,1 ", ["C17", "C04"]),
    ("C17-hs-token", S + "data/stabilizer6-E.txt", "8:3:3:h1 cx1,0 cx1,4 h1 h2 h3 h4 h5 cz0,1 ", "8:3:3:h1 cx1,0 cx1,4 h1 h2 h3 h4 h5 cz0,1 hs3 ", ["C17"]),
    ("C18-pivot-from-row0", S + "f2_algebra.py", "    while h < m and k < n:\n        found = False\n        i = h\n        while not found and i < m:\n            if A[i, k] == 1:", "    while h < m and k < n:\n        found = False\n        i = 0 if m > 30 else h\n        while not found and i < m:\n            if A[i, k] == 1:", ["C18"]),
    ("C02-ladder-extra-edge", S + "connectivity_support.py", "        graph = Graph.cycle(num_qubits)\n        graph.add_edge(1, 4)", "        graph = Graph.cycle(num_qubits)\n        graph.add_edge(1, 4)\n        graph.add_edge(0, 2)", ["C02"]),
    ("C02-compose-without-qubits", S + "tomography.py", "        circuit: QuantumCircuit = preparation_circuit.compose(readout_circuit, qubits=measured_qubits)  # type: ignore\n        circuit.measure_all()\n        if circuit.metadata is None:",
     "        circuit: QuantumCircuit = preparation_circuit.compose(readout_circuit, qubits=(sorted(measured_qubits) if measured_qubits is not None else None))  # type: ignore\n        circuit.measure_all()\n        if circuit.metadata is None:", ["C02", "C11"]),
    ("C05-longer-5T-line", S + "data/stabilizer5-T.txt", "11:5:3:h0 h3 s3 cz0,3 h3 h4 cz3,4 h1 cz0,1 h3 h4 cz3,4 h2 s2 cz0,2 s2 h4 s4 ", "11:7:5:h0 h3 s3 cz0,3 h3 h4 cz3,4 h1 cz0,1 h3 h4 cz3,4 h2 s2 cz0,2 s2 h4 s4 cz0,1 cz0,1 ", ["C05", "C17"]),
]

here = os.path.dirname(os.path.abspath(__file__))
sel = sys.argv[1:]
for name, f, old, new, props in M:
    if sel and not any(s in name for s in sel):
        continue
    print(f"##### {name}", flush=True)
    subprocess.call([os.path.join(here, "tools_mutant.py"), "--file", f, "--old", old, "--new", new] + props)
