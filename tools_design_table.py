#!/usr/bin/env python3
"""Rewrites the table 'Which checks catch which changes' in DESIGN.md from seeded/*/meta.json."""
import json, glob, os, re
HERE = os.path.dirname(os.path.abspath(__file__))
def key(d):
    b = os.path.basename(d); m = re.match(r"C(\d+)(?:-(\d+))?$", b)
    return (int(m.group(1)), int(m.group(2) or 1))
rows = []
for d in sorted([d for d in glob.glob(os.path.join(HERE, "seeded", "C*")) if os.path.isdir(d)], key=key):
    mp = os.path.join(d, "meta.json")
    if not os.path.exists(mp):
        continue
    m = json.load(open(mp))
    summ = m.get("summary") or ""
    summ = (summ if isinstance(summ, str) else json.dumps(summ)).replace("\n", " ").replace("|", "/")
    lab = lambda k: k.split(":")[0] + ("(thorough tier)" if ":thorough:" in k else "")
    caught = sorted({lab(k) for k, v in m.get("checks", {}).items() if v["exit"] == 1})
    quiet = sorted({lab(k) for k, v in m.get("checks", {}).items() if v["exit"] == 0})
    rows.append(f"| {os.path.basename(d)} | {summ[:150]}{'…' if len(summ) > 150 else ''} | {', '.join(caught) or '-'} | {', '.join(quiet) or '-'} |")
p = os.path.join(HERE, "DESIGN.md")
lines = open(p).read().split("\n")
start = next(i for i, l in enumerate(lines) if l.startswith("| seeded change |"))
end = start + 2
while end < len(lines) and lines[end].startswith("| C"):
    end += 1
lines[start + 2:end] = rows
open(p, "w").write("\n".join(lines))
print(len(rows), "rows")
