#!/usr/bin/env python3
"""Confirm and evaluate a seeded change produced by an independent sub-agent.

usage: tools_seeded.py <ID> [--from DIR] [--no-baseline] [--tier quick] CHECK [CHECK ...]

Steps (all in a fresh scratch worktree of /repo HEAD, removed afterwards):
  1. apply seeded/<ID>/patch.diff (copied from DIR = /tmp/seed_<ID> on first use, with demo.py and meta.json)
  2. demo.py must exit 1 on the patched tree and 0 on the unmodified library
  3. the repository's test suite must still pass the 152 stable tests (skipped with --no-baseline)
  4. run the given checks against the patched tree (VERIF_REPO) and record their exit codes
Results are merged into seeded/<ID>/meta.json under "confirmed" and "checks".
"""
import argparse
import json
import os
import shutil
import subprocess
import sys
import tempfile
import time

HERE = os.path.dirname(os.path.abspath(__file__))
ap = argparse.ArgumentParser()
ap.add_argument("sid")
ap.add_argument("--from", dest="src", default=None)
ap.add_argument("--no-baseline", action="store_true")
ap.add_argument("--tier", default="quick")
ap.add_argument("--seed", default="1")
ap.add_argument("checks", nargs="*")
a = ap.parse_args()

dest = os.path.join(HERE, "seeded", a.sid)
src = a.src or f"/tmp/seed_{a.sid.split('-')[0]}"
os.makedirs(dest, exist_ok=True)
for f in ("patch.diff", "demo.py", "meta.json"):
    if not os.path.exists(os.path.join(dest, f)):
        shutil.copy(os.path.join(src, f), os.path.join(dest, f))
try:
    meta = json.load(open(os.path.join(dest, "meta.json")))
except Exception:
    meta = {"property": a.sid}
tmp = tempfile.mkdtemp(prefix="sv_", dir="/tmp")
wt = os.path.join(tmp, "r")
res = {}
try:
    subprocess.check_call(["git", "-C", "/repo", "worktree", "add", "-q", "--detach", wt, "HEAD"])
    subprocess.check_call(["git", "-C", wt, "apply", os.path.join(dest, "patch.diff")])
    changed = subprocess.check_output(["git", "-C", wt, "status", "--short"], text=True).split("\n")
    res["files_changed"] = [l.strip() for l in changed if l.strip()]
    py = "/venv/bin/python"
    d1 = subprocess.run([py, os.path.join(dest, "demo.py")], env=dict(os.environ, REPO_SRC=wt + "/src"), capture_output=True, text=True, cwd=tmp)
    d0 = subprocess.run([py, os.path.join(dest, "demo.py")], env=dict(os.environ, REPO_SRC="/repo/src"), capture_output=True, text=True, cwd=tmp)
    res["demo_exit_with_change"] = d1.returncode
    res["demo_exit_without_change"] = d0.returncode
    print(f"demo: with change exit={d1.returncode}, without exit={d0.returncode}")
    print("   ", (d1.stdout.strip().splitlines() or [""])[-1][:200])
    if not a.no_baseline:
        xml = os.path.join(tmp, "junit.xml")
        t = time.time()
        subprocess.run([py, "-m", "pytest", "-q", "-p", "no:cacheprovider", "--timeout=900", "--continue-on-collection-errors",
                        f"--junitxml={xml}"], cwd=wt, capture_output=True, text=True)
        b = subprocess.run(["python3", os.path.join(HERE, "tools_baseline.py"), xml], capture_output=True, text=True)
        res["baseline"] = b.stdout.strip().splitlines()[0] if b.stdout else "?"
        res["baseline_ok"] = b.returncode == 0
        print(f"baseline: {res['baseline']} ok={res['baseline_ok']} ({time.time() - t:.0f}s)")
    checks = meta.get("checks", {})
    env = dict(os.environ, VERIF_REPO=wt, VERIF_EVIDENCE_DIR=tmp + "/ev", VERIF_REPLAY_DIR=tmp + "/rp", VERIF_SEED=a.seed)
    for pid in a.checks:
        t = time.time()
        r = subprocess.run([os.path.join(HERE, "check.py"), pid, "--tier", a.tier], env=env, capture_output=True, text=True)
        lines = [l for l in r.stdout.splitlines() if not l.startswith("KNOWN-FINDING")]
        nv = len([l for l in lines if l.startswith("VIOLATION")])
        first = next((l.strip() for l in lines if l.strip() and not l.startswith("VIOLATION")), "")
        checks[f"{pid}:{a.tier}:seed{a.seed}"] = {"exit": r.returncode, "violations": nv, "first_message": first[:300], "wall_s": round(time.time() - t)}
        print(f"check {pid} ({a.tier}): exit={r.returncode} violations={nv} wall={time.time() - t:.0f}s  {first[:200]}")
        # keep the smallest replay the check produced (it becomes a regression input)
        rp = os.path.join(tmp, "rp")
        if nv and os.path.isdir(rp):
            cands = sorted((os.path.getsize(os.path.join(rp, f)), f) for f in os.listdir(rp) if f.startswith(pid + "-"))
            if cands:
                os.makedirs(os.path.join(dest, "replays"), exist_ok=True)
                shutil.copy(os.path.join(rp, cands[0][1]), os.path.join(dest, "replays", f"{pid}.json"))
            for f in os.listdir(rp):
                os.remove(os.path.join(rp, f))
        if r.returncode == 2:
            print(r.stderr[-1500:])
    meta["confirmed"] = dict(meta.get("confirmed", {}), **res)
    meta["checks"] = checks
    meta["how_checked"] = ("patch applied to a scratch worktree of /repo HEAD (removed afterwards); demo run against the patched and the unmodified "
                           "library; repository test suite compared with the 152 stable tests; checks run with VERIF_REPO=<worktree>")
    json.dump(meta, open(os.path.join(dest, "meta.json"), "w"), indent=1)
finally:
    subprocess.call(["git", "-C", "/repo", "worktree", "remove", "--force", wt])
    shutil.rmtree(tmp, ignore_errors=True)
