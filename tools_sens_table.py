#!/usr/bin/env python3
"""Prints the markdown table of independently seeded changes from seeded/*/meta.json (for SENSITIVITY.md / DESIGN.md)."""
import json
import os
import glob

HERE = os.path.dirname(os.path.abspath(__file__))
rows = []
try:
    NOTES = json.load(open(os.path.join(HERE, "seeded", "NOTES.json")))
except Exception:
    NOTES = {}
for d in sorted(glob.glob(os.path.join(HERE, "seeded", "*"))):
    mp = os.path.join(d, "meta.json")
    if not os.path.exists(mp):
        continue
    m = json.load(open(mp))
    sid = os.path.basename(d)
    conf = m.get("confirmed", {})
    ok = (conf.get("demo_exit_with_change") == 1 and conf.get("demo_exit_without_change") == 0 and conf.get("baseline_ok", None) is True)
    caught, missed = [], []
    for k, v in sorted(m.get("checks", {}).items()):
        pid = k.split(":")[0] + ("(thorough tier)" if ":thorough:" in k else "")
        (caught if v["exit"] == 1 else missed).append(pid + ("(exit 2!)" if v["exit"] == 2 else ""))
    summ = (m.get("summary") or "").replace("\n", " ").replace("|", "/")
    needs = (m.get("needs") or "")
    if isinstance(needs, (list, dict)):
        needs = json.dumps(needs)
    needs = needs.replace("\n", " ").replace("|", "/")
    note = (NOTES.get(sid) or m.get("strengthening") or "").replace("|", "/")
    rows.append((sid, m.get("property", sid), summ[:260], needs[:260], "yes" if ok else "NOT CONFIRMED", ", ".join(caught) or "-", ", ".join(missed) or "-", note))
print("| seed | breaks | change | needs to manifest | confirmed (demo 1/0, suite 152/152) | caught by (quick tier) | run but quiet | strengthening made because of it |")
print("|---|---|---|---|---|---|---|---|")
for r in rows:
    print("| " + " | ".join(r) + " |")
