#!/venv/bin/python
"""Fresh-interpreter reference for C13: reads {"specs": [...], "order": [...]} on stdin, executes the calls in the given
order in THIS interpreter (its PYTHONHASHSEED is set by the parent) and prints the canonical results as JSON."""
import json
import os
import sys

HERE = os.path.dirname(os.path.abspath(__file__))
sys.path.insert(0, HERE)


def main():
    job = json.load(sys.stdin)
    import c13lib
    out = {}
    for i in job["order"]:
        spec = job["specs"][i]
        try:
            out[str(i)] = {"ok": c13lib.canon(c13lib.execute(spec))}
        except Exception as e:  # noqa: BLE001
            out[str(i)] = {"raised": type(e).__name__, "msg": str(e)[:200]}
    json.dump({"hashseed": os.environ.get("PYTHONHASHSEED"), "results": out}, sys.stdout)


if __name__ == "__main__":
    main()
