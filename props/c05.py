"""C05 -- delivered circuits use the minimum possible number of two-qubit gates.

Exhaustive breadth-first search on the LC-class quotient graph (nodes: LC orbits; edge c -> c' when
CZ_ab (C_a x C_b)|G_c> lies in c' for a coupled pair (a,b) and local Cliffords C_a, C_b), compared with the
cost of every table entry and of delivered preparation circuits.  Every gap is confirmed by a *witness
circuit* that is validated without the LC oracle: it obeys the coupling table, the library's own
compress_preparation_circuit returns a circuit for the same state (dense fidelity 1) with more two-qubit gates.
"""
import os

import numpy as np

import framework as fw
import libif
from oracle import dense, pauli, lc, cost, coupling, tables
from gen import members

RULE = ("exhaustive: for each of the 20 configurations, all LC classes x all coupled pairs x all 36 pairs of local "
        "Cliffords (mod Paulis) -> breadth-first distance of every class from the product class; compared with (i) the "
        "cost column and true two-qubit count of every table line (5962) and (ii) the two-qubit count of the delivered "
        "preparation circuit for the class representative, a random graph of the orbit in graph form and k constructed members (k=1 quick, 4 thorough). Plus "
        "Hypothesis-generated competitor circuits with k two-qubit gates on coupled pairs (metamorphic: compressed "
        "cost <= k). A case is one (configuration, class[, member]) or one competitor circuit; non-trivial = class at "
        "distance >= 1 on a connectivity that is not all-to-all; distinct by (n, connectivity, class, member group).")
ASSUMPTIONS = ["reduction (DESIGN.md §4 C05): minimum over all circuits = minimum number of CZ with free local Cliffords = BFS distance in the class graph",
               "LC-orbit oracle (Van den Nest theorem) for the BFS; every reported gap is independently confirmed by a dense-simulated witness circuit",
               "coupling table transcribed from README/docstrings"]
KCOUNT = {2: 2, 3: 5, 4: 18, 5: 93, 6: 760}
BUDGET = {"quick": 300, "thorough": 2400}
KNOWN_ALWAYS_REACHED = True
LOCAL6 = members.LOCAL_WORDS


# ---- transitions -------------------------------------------------------------------------

def transitions_for(n, orbit):
    """{pair_index: sorted list of orbits reachable from `orbit` with one CZ on that pair}"""
    tab = lc.orbit_table(n)
    base = lc.graph_state_gens(n, orbit)
    out = {}
    for pi, (a, b) in enumerate(lc.pairs(n)):
        reach = set()
        for wa in LOCAL6:
            ga = [pauli.propagate(g, [(w, (a,)) for w in wa]) for g in base]
            for wb in LOCAL6:
                gb = [pauli.conj(pauli.propagate(g, [(w, (b,)) for w in wb]), "cz", (a, b)) for g in ga]
                reach.add(tab[lc.graph_form(gb, n)])
        out[pi] = sorted(reach)
    return out


def shard_trans(arg):
    n, orbits = arg
    rep = fw.Report()
    res = {}
    for o in orbits:
        res[f"{n}:{o}"] = transitions_for(n, o)
        rep.evaluations += len(lc.pairs(n)) * 36
    rep.extra["trans"] = res
    return rep


def bfs(n, name, trans):
    """distance and parent pointers from the product class (orbit 0) using only coupled pairs"""
    es = coupling.edge_set(n, name)
    pis = [pi for pi, p in enumerate(lc.pairs(n)) if p in es]
    dist = {0: 0}
    parent = {}
    frontier = [0]
    while frontier:
        nxt = []
        for c in frontier:
            t = trans[str(c)]
            for pi in pis:
                for c2 in t[pi] if pi in t else t[str(pi)]:
                    if c2 not in dist:
                        dist[c2] = dist[c] + 1
                        parent[c2] = (c, pi)
                        nxt.append(c2)
        frontier = nxt
    return dist, parent


def witness_circuit(n, name, target_orbit, parent):
    """circuit (plain ops) with dist(target) CZ gates on coupled pairs preparing a state in target_orbit"""
    tab = lc.orbit_table(n)
    path = []
    c = target_orbit
    while c != 0:
        p, pi = parent[c]
        path.append((p, pi, c))
        c = p
    path.reverse()
    ops = [("h", (q,)) for q in range(n)]
    gens = [pauli.propagate((0, 0, 1 << q), ops) for q in range(n)]
    for (p, pi, c) in path:
        a, b = lc.pairs(n)[pi]
        assert tab[lc.graph_form(gens, n)] == p
        done = False
        for wa in LOCAL6:
            for wb in LOCAL6:
                step = [(w, (a,)) for w in wa] + [(w, (b,)) for w in wb] + [("cz", (a, b))]
                g2 = [pauli.propagate(g, step) for g in gens]
                if tab[lc.graph_form(g2, n)] == c:
                    ops += step
                    gens = g2
                    done = True
                    break
            if done:
                break
        if not done:
            raise fw.HarnessError("witness construction failed: BFS edge not reproducible on the actual state")
    return ops


def confirm_witness(n, name, ops):
    """independent confirmation: returns (witness_cost, delivered_cost, fidelity, delivered_ops) using only the dense
    simulator, the coupling table and the library's own compression"""
    L = libif.lib()
    es = coupling.edge_set(n, name)
    for g, qs in cost.twoq_ops(ops):
        if tuple(sorted(qs)) not in es:
            raise fw.HarnessError("witness violates the coupling table")
    qc = libif.build_circuit(n, ops)
    try:
        out = L.sc.compress_preparation_circuit(qc, name)
        out_ops = libif.ops_of(out)
        psi_d = dense.run(out_ops, n)
    except dense.UnknownGate:
        raise
    except Exception:  # noqa: BLE001   (the library cannot compress a valid circuit: C07's business; the gap is then shown by the
        return cost.twoq_count(ops), -1, 0.0, []      # delivered / table circuit against the validated witness alone)
    psi_w = dense.run([(o[0], tuple(o[1]), ()) for o in ops], n)
    return cost.twoq_count(ops), cost.twoq_count(out_ops), dense.fidelity(psi_w, psi_d), out_ops


# ---- per configuration --------------------------------------------------------------------

def table_lines(n, name):
    L = libif.lib()
    return tables.read_lines(os.path.join(L.datadir, f"stabilizer{n}-{name}.txt"))


def prep_cost(n, name, gens):
    L = libif.lib()
    stab = L.Stabilizer(libif.paulis_to_strings(gens, n))
    qc = L.sc.get_preparation_circuit(stab, name)
    ops = libif.ops_of(qc)
    return cost.twoq_count(ops), ops


def shard_config(arg):
    n, name, class_ids, trans, k_members, seed = arg
    rep = fw.Report()
    tab = lc.orbit_table(n)
    dist, parent = bfs(n, name, trans)
    lines = table_lines(n, name)
    tag = f"{n}/{name}"
    from gen import named as _named
    named_by_orbit = {}
    for j, (lab, g0, w, gens_n, circ_n) in enumerate(_named.named_subjects(n)):
        if fw.h64("c05n", seed, n, name, lab) % 3 == 0 or "hsh" in lab or lab.endswith("+hs") or lab.endswith("+sh"):
            named_by_orbit.setdefault(tab[g0], []).append((lab, gens_n))
    for k in class_ids:
        case = {"n": n, "connectivity": name, "class_id": k}
        if k >= len(lines):
            continue   # C17's business
        try:
            gid, c_cost, c_depth, t_ops = tables.parse_stabilizer_line(n, lines[k])
        except tables.TableError:
            continue   # C17's business
        orbit = tab[gid]
        if orbit not in dist:
            rep.fail(f"{tag}/class={k}/unreachable", case, f"{tag} class {k}: class not reachable on this connectivity according to the BFS (oracle problem?)")
            continue
        d = dist[orbit]
        t_count = cost.twoq_count(t_ops)
        nontrivial = d >= 1 and name != "all"
        # delivered circuits: representative and members
        delivered = []
        subjects = [("representative", lc.graph_state_gens(n, gid))]
        for i in range(k_members):
            rng = fw.rng_for("c05m", seed, n, name, k, i)
            g, _ = members.member(n, orbit, rng)
            subjects.append((f"member{i}", g))
        # named textbook states of this class in uniform frames (graph state of a named graph + the same Clifford on every qubit)
        cands = sorted(named_by_orbit.get(orbit, []), key=lambda t: (0 if t[0].split("+")[1][:3] in ("hsh", "sh", "hs") else 1, t[0]))
        for lab, g_named in cands[: (4 if k_members <= 1 else 12)]:
            subjects.append((f"named:{lab}", g_named))
        # the same class presented literally in graph form, for a graph of the orbit that need not be edge-minimal
        grng = fw.rng_for("c05g", seed, n, name, k)
        subjects.append(("graph-form", lc.graph_state_gens(n, members.random_lc_walk(n, orbit, grng))))
        # the class written in CSS form (generators purely of X type or purely of Z type, X checks not reduced), where it has one
        r_css = members.css_member(n, orbit, fw.rng_for("c05css", seed, n, name, k))
        if r_css is not None:
            subjects.append(("css-form", members.apply_signs(r_css[0], fw.h64("c05csss", seed, n, name, k) % (1 << n))))
        # spare qubits of the register left in |0> (or |1>): the graph state of the table's graph / of another graph of the orbit in
        # vertex order, with the generator of every isolated vertex written as +-Z instead of X -- how a user writes "a Bell pair
        # on qubits 0 and 3 of a five-qubit register"
        for lab0, g0 in (("table-graph", gid), ("orbit-graph", members.random_lc_walk(n, orbit, fw.rng_for("c05i", seed, n, name, k)))):
            adj = lc.adj_from_gid(n, g0)
            iso = [v for v in range(n) if not adj[v]]
            if iso:
                gz = list(lc.graph_state_gens(n, g0))
                for v in iso:
                    gz[v] = ((fw.h64("c05is", seed, n, name, k, v) >> 3) & 1 if lab0 == "orbit-graph" else 0, 0, 1 << v)
                subjects.append((f"idle-qubits-in-0:{lab0}", gz))
        for label, gens in subjects:
            try:
                c, ops = prep_cost(n, name, gens)
            except Exception as e:  # noqa: BLE001
                rep.count("preparation_raised", type(e).__name__)
                continue   # C01/C08's business
            psi = dense.run(ops, n)
            ok_state = all(abs(abs(dense.expectation(psi, g, n)) - 1) < 1e-9 for g in gens)
            if not ok_state:
                rep.count("delivered_wrong_state", tag)
                continue   # C01's business: circuit does not prepare the state, its cost proves nothing
            delivered.append((label, c, gens))
            rep.case((n, name, k, pauli.canonical_group(gens, n)) if nontrivial else None,
                     {"n": n, "connectivity": name, "class_id": k, "subject": label, "strings": [pauli.to_str(g, n) for g in gens],
                      "delivered_twoq": c, "bfs_min": d} if (k % 97 == 5 and label != "representative") else None)
            rep.count("delivered_by_config", tag)
        costs = sorted(set(c for _, c, _ in delivered) | {t_count})
        worst = max(costs)
        best = min(costs)
        if best < d:
            raise fw.HarnessError(f"{tag} class {k}: a delivered/table circuit with {best} two-qubit gates prepares a state of the class, "
                                  f"but the BFS distance is {d}: the BFS oracle is wrong")
        if worst > d:
            # confirm the gap with a witness circuit, independently of the LC oracle
            w_ops = witness_circuit(n, name, orbit, parent)
            wc, dc, fid, d_ops = confirm_witness(n, name, w_ops)
            if wc != d:
                raise fw.HarnessError("witness has the wrong number of two-qubit gates")
            if abs(fid - 1) > 1e-9:
                rep.count("witness_compress_wrong_state", tag)   # C07's business; gap still shown by the table/delivered circuit below
            case = {"n": n, "connectivity": name, "class_id": k, "graph_id": gid, "table_line": lines[k],
                    "delivered_twoq": worst, "bfs_min": d, "witness": libif.plain_ops(w_ops),
                    "compressed_witness_twoq": dc, "compressed_witness_fidelity": fid}
            if dc > wc or worst > wc:
                key = f"{tag}/class={k}/delivered={worst}/min={d}"
                msg = (f"{tag} class {k}: delivered circuits use {worst} two-qubit gates, but a circuit with {d} on coupled pairs exists "
                       f"(witness; the library compresses it to {dc} at fidelity {fid:.6f})")
                if d == 0:
                    msg = f"{tag} class {k}: product state prepared with {worst} two-qubit gate(s)"
                rep.fail(key, case, msg, observed=worst, expected=d)
            rep.count("gaps_by_config", tag)
        if c_cost != t_count:
            rep.count("cost_column_mismatch(C17)", tag)
    return rep


# ---- random competitor circuits ---------------------------------------------------------------

def comp_strategy():
    from hypothesis import strategies as st

    @st.composite
    def circ(draw):
        n, name = draw(st.sampled_from([c for c in coupling.CONFIGS if c[1] != "all"] + [(6, "all"), (5, "all")]))
        edges = sorted(coupling.edge_set(n, name))
        k = draw(st.integers(0, 14))
        ops = []
        for q in range(n):
            if draw(st.booleans()):
                ops.append(["h", [q]])
        for _ in range(k):
            a, b = draw(st.sampled_from(edges))
            for q in (a, b):
                for g in draw(st.sampled_from(LOCAL6)):
                    ops.append([g, [q]])
            if draw(st.booleans()):
                a, b = b, a
            ops.append([draw(st.sampled_from(["cz", "cz", "cx", "swap"])), [a, b]])
        for q in range(n):
            for g in draw(st.sampled_from(LOCAL6)):
                ops.append([g, [q]])
        return {"n": n, "connectivity": name, "ops": ops}
    return circ()


_CLASS_OF_ORBIT = {}
_DIST = {}


def class_of_orbit(n, name):
    key = (n, name)
    if key not in _CLASS_OF_ORBIT:
        tab = lc.orbit_table(n)
        m = {}
        for k, line in enumerate(table_lines(n, name)):
            try:
                gid = tables.parse_stabilizer_line(n, line)[0]
                m.setdefault(tab[gid], k)
            except tables.TableError:
                pass
        _CLASS_OF_ORBIT[key] = m
    return _CLASS_OF_ORBIT[key]


def check_competitor(case):
    L = libif.lib()
    n, name = case["n"], case["connectivity"]
    ops = [(o[0], tuple(o[1])) for o in case["ops"]]
    k = cost.twoq_count(ops)
    try:
        out = L.sc.compress_preparation_circuit(libif.build_circuit(n, ops), name)
    except Exception:  # noqa: BLE001
        return []      # C07/C08's business
    o_ops = libif.ops_of(out)
    c = cost.twoq_count(o_ops)
    gens0 = members.group_of_circuit(n, ops)
    orbit0 = lc.orbit_of(gens0, n)
    bmin0 = _DIST.get((n, name), {}).get(orbit0)
    if c <= k and (bmin0 is None or c <= bmin0):
        return []
    psi_in = dense.run([(o[0], o[1], ()) for o in ops], n)
    if abs(dense.fidelity(psi_in, dense.run(o_ops, n)) - 1) > 1e-9:
        return []      # C07's business
    gens = members.group_of_circuit(n, ops)
    orbit = lc.orbit_of(gens, n)
    cid = class_of_orbit(n, name).get(orbit, "?")
    dmin = case.get("_bfs_min", {}).get(str(orbit)) if isinstance(case.get("_bfs_min"), dict) else None
    bmin = _DIST.get((n, name), {}).get(orbit)
    if bmin is not None and bmin < c:
        key = f"{n}/{name}/class={cid}/delivered={c}/min={bmin}"
        msg = (f"{n}/{name}: compress_preparation_circuit delivers {c} two-qubit gates for a state of class {cid} whose minimum on this "
               f"connectivity is {bmin} (input circuit: {k} two-qubit gates, swap = 3, all on coupled pairs)")
    else:
        key = f"{n}/{name}/class={cid}/competitor-beats-delivered"
        msg = (f"{n}/{name}: a circuit with {k} two-qubit gates on coupled pairs prepares a state (class {cid}) that the library "
               f"compresses to {c} two-qubit gates")
    return [(key, msg, {"observed": c, "expected": min(k, bmin) if bmin is not None else k})]


def classify_comp(case):
    ops = [(o[0], tuple(o[1])) for o in case["ops"]]
    k = cost.twoq_count(ops)
    nt = (case["n"], case["connectivity"], tuple(map(lambda o: (o[0], tuple(o[1])), case["ops"]))) if (k >= 1 and case["connectivity"] != "all") else None
    return nt, {"competitor_twoq": k, "competitor_config": f"{case['n']}/{case['connectivity']}"}


def shard_comp(arg):
    seed, n_examples, dist_tables, deadline = arg
    for key, d in dist_tables.items():
        n, name = key.split("/")
        _DIST[(int(n), name)] = {int(o): v for o, v in d.items()}
    rep = fw.Report()
    fw.hyp_search(comp_strategy(), check_competitor, rep, seed, n_examples, classify=classify_comp, deadline_ts=deadline,
                  max_shrink_keys=2)
    return rep


# ---- driver ---------------------------------------------------------------------------------

def compute_transitions(ctx, rep):
    args = []
    for n in range(2, 7):
        reps = members.orbit_reps(n)
        for chunk in fw.split(reps, 1 if n < 5 else (4 if n == 5 else 32)):
            args.append((n, chunk))
    args.sort(key=lambda a: -a[0])
    r = fw.run_shards(ctx, "props.c05", "shard_trans", args)
    trans = r.extra.pop("trans")
    rep.extra["bfs_transition_evaluations"] = r.evaluations
    # json-like dict with str keys -> use ints for pair indices
    out = {}
    for key, t in trans.items():
        n, o = key.split(":")
        out.setdefault(int(n), {})[o] = {int(pi): v for pi, v in t.items()}
    return out


def run(ctx):
    rep = fw.Report()
    trans = compute_transitions(ctx, rep)
    k_members = 1 if ctx.quick else 4
    args = []
    dist_tables = {}
    for (n, name) in coupling.CONFIGS:
        d, _ = bfs(n, name, trans[n])
        dist_tables[f"{n}/{name}"] = {str(o): v for o, v in d.items()}
        ids = list(range(KCOUNT[n]))
        for chunk in fw.split(ids, 1 if n < 5 else (2 if n == 5 else 12)):
            args.append((n, name, chunk, trans[n], k_members, ctx.seed))
    args.sort(key=lambda a: -a[0])
    rep.merge(fw.run_shards(ctx, "props.c05", "shard_config", args))
    per = 40 if ctx.quick else 1200
    cargs = [(ctx.seed * 1000 + i, per, dist_tables, ctx.deadline) for i in range(16)]
    rep.merge(fw.run_shards(ctx, "props.c05", "shard_comp", cargs))
    rep.extra["exhaustive"] = False
    rep.extra["exhaustive_part"] = "BFS over all classes x coupled pairs x 36 local pairs and all 5962 table lines are complete in every run; members and competitor circuits are sampled"
    rep.extra["bfs_max_distance"] = {k: max(v.values()) for k, v in dist_tables.items()}
    return rep


def replay(case):
    n, name = case["n"], case["connectivity"]
    if "ops" in case:
        rep0 = fw.Report()
        ctx = fw.Ctx("C05", "quick", 0, procs=1)
        tr = {}
        for o in members.orbit_reps(n):
            tr[str(o)] = transitions_for(n, o)
        d, _ = bfs(n, name, tr)
        _DIST[(n, name)] = d
        return [{"key": k, "msg": m, "case": case} for k, m, e in check_competitor(case)]
    tr = {}
    for o in members.orbit_reps(n):
        tr[str(o)] = transitions_for(n, o)
    rep = shard_config((n, name, [case["class_id"]], tr, 2, 1))
    return rep.failures
