"""C01 -- the preparation circuit prepares exactly the requested stabilizer state (signs included)."""
import time

import framework as fw
import libif
from oracle import dense, pauli, lc, coupling
from gen import members, sweep

RULE = ("quick: every group for n<=3 x all 2^n sign vectors x all configurations; all 2295 four-qubit groups x 2 sign "
        "vectors x 1 drawn configuration; n=5: 93 classes x 6 configurations x 3 constructed members; n=6: 760 classes x "
        "7 configurations x 2 members; the canonical generators of the graph stored in every table entry (all 5962); product states and single Bell pairs on 4..6 qubits in dense generating sets with 3-4 sign vectors each (32 / 300 members of the product class, a quarter of that per Bell-pair class; half of them in a near-uniform random basis); plus Hypothesis cases over input formats, generator bases and Clifford-circuit "
        "inputs. thorough: every group n<=4 x ALL sign vectors x all configurations, every five-qubit group x 1 sign "
        "vector x all 6 configurations, n=6: 760 x 7 x 6 members, 16 x 300 Hypothesis cases. A case is one call of "
        "get_preparation_circuit; the input format rotates through Pauli strings (with/without sign), X/Z matrices "
        "(int8/int64/bool, with/without phases), graph, circuit. Non-trivial = entangled class and (a minus sign or a "
        "non-canonical generator set); distinct by (n, connectivity, signed canonical group, format). Oracle: dense "
        "simulation of the returned instruction list on |0..0>; every given signed operator must stabilise the state; "
        "for circuit inputs the dense state of the input circuit must have fidelity 1 with the output.")
ASSUMPTIONS = ["dense simulator (literal gate matrices) is the root of trust", "qiskit reports the instructions the library appended"]
BUDGET = {"quick": 400, "thorough": 3300}


def check_prep(case, keep=None):
    """predicate on plain data; returns [(key, msg, extra)].  If `keep` is a list, the returned circuit object is appended to it
    together with a snapshot of its instruction list (for the deferred re-verification after later calls)."""
    L = libif.lib()
    n, name, fmt = case["n"], case["connectivity"], case["format"]
    fails = []
    if fmt == "circuit":
        ops_in = [(o[0], tuple(o[1])) for o in case["ops"]]
        gens = members.group_of_circuit(n, ops_in)
        orbit = lc.orbit_of(gens, n)
        label = f"circuit input of {len(ops_in)} gates"
        try:
            qc_in = libif.build_circuit(n, ops_in, case.get("registers"), case.get("metadata"))
            out = L.sc.get_preparation_circuit(L.Stabilizer(qc_in), name)
        except Exception as e:  # noqa: BLE001
            return [(f"{n}/{name}/orbit={orbit}/raised:{type(e).__name__}", f"{n}-{name}: get_preparation_circuit raised {type(e).__name__}({e}) for a {label}", {})]
        psi_in = dense.run([(o[0], o[1], ()) for o in ops_in], n)
    else:
        gens = [pauli.parse(s)[:3] for s in case["strings"]]
        orbit = lc.orbit_of(gens, n)
        label = f"{case['strings']} as {fmt}"
        try:
            stab = sweep.make_stabilizer(n, gens, fmt, case.get("graph_gid"))
            out = L.sc.get_preparation_circuit(stab, name)
        except Exception as e:  # noqa: BLE001
            return [(f"{n}/{name}/orbit={orbit}/raised:{type(e).__name__}", f"{n}-{name}: get_preparation_circuit raised {type(e).__name__}({e}) for the valid stabilizer {label}", {})]
        psi_in = None
    if out.num_qubits != n:
        return [(f"{n}/{name}/width", f"{n}-{name}: returned circuit has {out.num_qubits} qubits", {})]
    try:
        ops = libif.ops_of(out)
        psi = dense.run(ops, n)
        if keep is not None:
            keep.append((out, [(o[0], tuple(o[1])) for o in ops], case))
    except dense.UnknownGate as e:
        raise fw.HarnessError(f"returned circuit contains a gate that cannot be interpreted: {e}")
    if psi_in is not None:
        f = dense.fidelity(psi_in, psi)
        if abs(f - 1) > 1e-9:
            fails.append((f"{n}/{name}/orbit={orbit}/circuit-input-state", f"{n}-{name}: circuit for Stabilizer(circuit) prepares a different state than the input circuit (fidelity {f:.4f})", {}))
    for g in gens:
        e = dense.expectation(psi, g, n)
        if abs(e - 1) > 1e-9:
            kind = "sign" if abs(e + 1) < 1e-9 else "wrong-state"
            fails.append((f"{n}/{name}/orbit={orbit}/{kind}",
                          f"{n}-{name}: prepared state is not a +1 eigenstate of {pauli.to_str(g, n)} (<P> = {e:+.3f}) for {label}",
                          {"observed": round(e, 6), "expected": 1}))
            break
    return fails


def nontrivial_key(case, gens, orbit, n):
    if orbit == 0:
        return None
    canonical = [tuple(g) for g in gens] == lc.graph_state_gens(n, lc.graph_form(gens, n)) if all(g[0] == 0 for g in gens) else False
    if all(g[0] == 0 for g in gens) and canonical:
        return None
    return (n, case["connectivity"], pauli.signed_canonical(gens, n), case["format"])


def verify_held(rep, held):
    """deferred re-verification: a circuit handed out earlier must still be the circuit that was verified, whatever calls came later"""
    for qc, snap, case in held:
        now = [(o[0], tuple(o[1])) for o in libif.ops_of(qc)]
        rep.count("deferred_reverifications", "done")
        if now != snap:
            n, name = case["n"], case["connectivity"]
            seq = [dict(c) for _, _, c in held]
            rep.fail(f"{n}/{name}/returned-circuit-changed-by-later-calls", {"sequence": seq, "n": n, "connectivity": name},
                     f"{n}-{name}: the circuit returned for {case.get('strings')} was changed by later calls of get_preparation_circuit "
                     f"({len(snap)} instructions when returned, {len(now)} now) and no longer is the verified circuit")
            break
    del held[:]


def run_subject(rep, n, name, gens, fmt, meta, graph_gid=None, sample=False, keep=None):
    case = {"n": n, "connectivity": name, "strings": sweep.strings(gens, n), "format": fmt}
    if graph_gid is not None and fmt == "graph":
        case["graph_gid"] = graph_gid
    fails = check_prep(case, keep)
    orbit = lc.orbit_of(gens, n)
    rep.case(nontrivial_key(case, gens, orbit, n), dict(case, **meta) if sample else None)
    rep.count("calls_per_config", f"{n}-{name}")
    rep.count("format", fmt)
    rep.count("sign_weight", bin(sum((g[0] << i) for i, g in enumerate(gens))).count("1"))
    rep.count("orbits_hit_n%d" % n, orbit)
    for key, msg, extra in fails:
        rep.fail(key, case, msg, **extra)


def shard(arg):
    kind = arg[0]
    rep = fw.Report()
    if kind == "enum":
        _, n, shard_list, cfg_mode, sign_mode, seed, deadline = arg
        cfgs = sweep.configs(n)
        i = 0
        for gens, rng, meta in sweep.enum_subjects(n, shard_list, seed, "c01e"):
            if deadline and time.time() > deadline:
                rep.truncated = True
                break
            names = cfgs if cfg_mode == "all" else [rng.choice(cfgs)]
            held = []
            svs = sweep.sign_vectors(n, sign_mode, rng)
            if len(svs) == 1:
                svs = svs + [svs[0] ^ (1 << rng.randrange(n))] if (fw.h64("c01again", seed, n, i) % 4 == 0) else svs
            for sv in svs:
                g2 = members.apply_signs(gens, sv)
                fmts = sweep.applicable_formats(g2, n)
                for name in names:
                    i += 1
                    run_subject(rep, n, name, g2, fmts[i % len(fmts)], meta, sample=(i % 5000 == 1), keep=held)
            verify_held(rep, held)
    elif kind == "member":
        _, n, orbits, k, sign_mode, seed, deadline = arg
        cfgs = sweep.configs(n)
        i = 0
        for gens, rng, meta in sweep.member_subjects(n, orbits, k, seed, "c01m"):
            if deadline and time.time() > deadline:
                rep.truncated = True
                break
            held = []
            for name in cfgs:
                svs = sweep.sign_vectors(n, sign_mode, rng)
                if len(svs) == 1 and name == cfgs[0]:
                    svs = svs + [svs[0] ^ (1 << rng.randrange(n))]     # same generators, other signs: exercises history effects
                for sv in svs:
                    g2 = members.apply_signs(gens, sv)
                    fmts = sweep.applicable_formats(g2, n)
                    i += 1
                    run_subject(rep, n, name, g2, fmts[i % len(fmts)], meta, sample=(i % 3000 == 1), keep=held)
            verify_held(rep, held)
    elif kind == "low-entanglement":
        # product states and single Bell pairs (+ product qubits) on 4..6 qubits, written with DENSE generating sets (products of the
        # single-qubit stabilizers, heaviest elements) and several sign vectors each: a class-stratified sweep gives these two or three
        # members like any other class, although they are what a register mostly holds
        _, n, part, parts, k, seed = arg
        cfgs = sweep.configs(n)
        low = [o for o in members.orbit_reps(n) if bin(o).count("1") <= 1]
        i = 0
        for o in low:
            for j in range(k if o == 0 else max(1, k // 4)):
                i += 1
                if i % parts != part:
                    continue
                rng = fw.rng_for("c01low", seed, n, o, j)
                gens, info = members.member(n, o, rng, signs="plus", mix=["uniform", "uniform", "heavy", True][j % 4])
                held = []
                name = cfgs[(i // parts) % len(cfgs)]
                for sv in {rng.randrange(1 << n), 1 << rng.randrange(n), (1 << n) - 1, rng.randrange(1 << n)}:
                    g2 = members.apply_signs(gens, sv)
                    fmts = sweep.applicable_formats(g2, n)
                    run_subject(rep, n, name, g2, fmts[(i + sv) % len(fmts)], {"source": "low-entanglement class in a dense basis", "orbit": o}, sample=(i == 3 and sv & 1))
                verify_held(rep, held)
    elif kind == "graphs":
        # the graph input format: canonical generators of graph states, all graphs n<=4, drawn for n=5,6
        _, n, gids, seed = arg
        for gid in gids:
            gens = lc.graph_state_gens(n, gid)
            for name in sweep.configs(n):
                run_subject(rep, n, name, gens, "graph", {"source": "graph"}, graph_gid=gid, sample=(gid % 500 == 3))
    elif kind == "table-graphs":
        # the canonical generators of the very graph each table entry stores (every configuration x class), as graph and as strings
        _, n, name, ids, seed = arg
        from gen import tableinfo
        for k in ids:
            ent = tableinfo.parsed(n, name)[k] if k < len(tableinfo.parsed(n, name)) else None
            if ent is None:
                continue
            gid = ent[0]
            gens = lc.graph_state_gens(n, gid)
            fmt = ["graph", "strings-nosign", "matrices-nophase", "strings+sign"][k % 4]
            run_subject(rep, n, name, gens, fmt, {"source": "table-graph", "class_id": k}, graph_gid=gid, sample=(k % 400 == 7))
    elif kind == "named":
        _, n, seed, part, parts = arg
        from gen import named
        for i, (label, gid, w, gens, circ) in enumerate(named.named_subjects(n)):
            if i % parts != part:
                continue
            fmts = sweep.applicable_formats(gens, n)
            for name in sweep.configs(n):
                run_subject(rep, n, name, gens, fmts[i % len(fmts)], {"source": "named", "state": label}, sample=(i % 60 == 7 and name == "all"))
    elif kind == "hyp":
        _, seed, n_examples, deadline = arg
        from hypothesis import strategies as st
        from gen import hyp

        def classify(case):
            n = case["n"]
            if case["format"] == "circuit":
                gens = members.group_of_circuit(n, [(o[0], tuple(o[1])) for o in case["ops"]])
            else:
                gens = [pauli.parse(s)[:3] for s in case["strings"]]
            orbit = lc.orbit_of(gens, n)
            return nontrivial_key(case, gens, orbit, n), {"format": case["format"], "calls_per_config": f"{n}-{case['connectivity']}",
                                                          "orbits_hit_n%d" % n: orbit}
        strat = st.one_of(hyp.stabilizer_case(), hyp.circuit_case(max_len=40), hyp.circuit_case(max_len=40))
        fw.hyp_search(strat, check_prep, rep, seed, n_examples, classify=classify, deadline_ts=deadline)
    return rep


def run(ctx):
    q = ctx.quick
    args = []
    dl = ctx.deadline
    # n = 2, 3: everything x all signs x all configs
    for n in (2, 3):
        for chunk in sweep.enum_shards(n, 1 if n == 2 else 4):
            args.append(("enum", n, chunk, "all", "all", ctx.seed, dl))
    # n = 4
    for chunk in sweep.enum_shards(4, 16 if q else 64):
        args.append(("enum", 4, chunk, "one" if q else "all", 2 if q else "all", ctx.seed, dl))
    # n = 5
    if q:
        for chunk in fw.split(members.orbit_reps(5), 8):
            args.append(("member", 5, chunk, 3, 1, ctx.seed, dl))
    else:
        for chunk in sweep.enum_shards(5, 256):
            args.append(("enum", 5, chunk, "all", 1, ctx.seed, dl))
    # n = 6
    for chunk in fw.split(members.orbit_reps(6), 64):
        args.append(("member", 6, chunk, 2 if q else 6, 1, ctx.seed, dl))
    # graph format
    for n in (2, 3, 4):
        args.append(("graphs", n, list(range(1 << (n * (n - 1) // 2))), ctx.seed))
    for n in (5, 6):
        N = 1 << (n * (n - 1) // 2)
        rng = fw.rng_for("c01g", ctx.seed, n)
        args.append(("graphs", n, sorted(rng.sample(range(N), 40 if q else 300)), ctx.seed))
    for n in range(2, 7):
        parts = {2: 1, 3: 1, 4: 2, 5: 6, 6: 16}[n]
        for part in range(parts):
            args.append(("named", n, ctx.seed, part, parts))
    kc = {2: 2, 3: 5, 4: 18, 5: 93, 6: 760}
    for (n, name) in coupling.CONFIGS:
        for chunk in fw.split(list(range(kc[n])), 1 if n < 6 else 4):
            args.append(("table-graphs", n, name, chunk, ctx.seed))
    for i in range(16):
        args.append(("hyp", ctx.seed * 1000 + i, 60 if q else 600, dl))
    for n in (6, 5, 4):
        parts = {4: 1, 5: 2, 6: 8}[n]
        for part in range(parts):
            args.append(("low-entanglement", n, part, parts, 32 if q else 300, ctx.seed))
    order = {"enum": 0, "member": 1, "hyp": 2, "graphs": 3, "table-graphs": 1, "named": 1, "low-entanglement": 1}
    args.sort(key=lambda a: (order[a[0]], -a[1] if a[0] != "hyp" else 0))
    rep = fw.run_shards(ctx, "props.c01", "shard", args)
    rep.extra["exhaustive"] = False
    rep.extra["exhaustive_part"] = ("all groups n<=3 x all signs x all configurations" +
                                    ("" if q else "; all groups n=4 x all signs x all configurations; all five-qubit groups x all configurations (one sign vector each)"))
    rep.extra["classes_hit"] = {k[len("orbits_hit_n"):]: len(v) for k, v in rep.hist.items() if k.startswith("orbits_hit_n")}
    for k in [k for k in rep.hist if k.startswith("orbits_hit_n")]:
        del rep.hist[k]
    return rep


def replay(case):
    if "sequence" in case:
        rep = fw.Report()
        held = []
        out = []
        for c in case["sequence"]:
            out += [{"key": k, "msg": m, "case": c} for k, m, e in check_prep(c, held)]
        verify_held(rep, held)
        return out + rep.failures
    return [{"key": k, "msg": m, "case": case} for k, m, e in check_prep(case)]
