"""C07 -- circuit compression preserves the prepared state for every Clifford circuit."""
import framework as fw
import libif
from oracle import dense, pauli, lc, cost, coupling
from gen import members, tableinfo
from props.c02 import coupling_violation

RULE = ("Hypothesis: gate sequences of length 0..300 over {id,x,y,z,h,s,sdg,cx,cz,swap} on n = 2..6 qubits (three styles: "
        "mixed, mostly-local, entangling; redundant patterns hh / cx cx / swap chains / ssss drawn as macros; graph-state "
        "circuits with local and Pauli gates) x the configurations of n; quick 16 x 100 cases, thorough 16 x 2500; plus, per "
        "configuration: one constructed member of every class, named textbook states, the exhaustive family 'Bell pair moved by SWAPs', "
        "and input circuits that never touch some qubits of the register (all Bell pairs, GHZ stars/chains, pairs of Bell pairs, lines "
        "on 4 qubits, drawn sub-circuits on k < n qubits), and the graph each table entry stores in drawn local frames (quick: one "
        "frame per entry for n <= 5; thorough: 12 per entry of all 20 tables). A case is "
        "one call of compress_preparation_circuit. Non-trivial = input has >= 1 two-qubit gate, the state is entangled and "
        "the input has more two-qubit gates than the class cost; distinct by (n, connectivity, gate list). Oracle: dense "
        "fidelity of input and output states = 1 (1e-9); coupling table; two-qubit count = cost column of the class found "
        "by the LC oracle; deep snapshot of the input circuit before/after.")
ASSUMPTIONS = ["dense simulator", "LC-orbit oracle + strict table parser for the class cost", "transcribed coupling table"]
BUDGET = {"quick": 400, "thorough": 3000}


def snapshot(qc):
    return (qc.num_qubits, qc.num_clbits, qc.name, float(qc.global_phase), repr(qc.metadata),
            [(o[0], tuple(o[1]), tuple(o[2]) if len(o) > 2 else ()) for o in libif.ops_of(qc)],
            [(r.name, r.size) for r in qc.qregs])


def check_compress(case):
    L = libif.lib()
    n, name = case["n"], case["connectivity"]
    ops_in = [(o[0], tuple(o[1])) for o in case["ops"]]
    fails = []
    qc = libif.build_circuit(n, ops_in, case.get("registers"), case.get("metadata"))
    before = snapshot(qc)
    gens = members.group_of_circuit(n, ops_in)
    orbit = lc.orbit_of(gens, n)
    try:
        out = L.sc.compress_preparation_circuit(qc, name)
    except Exception as e:  # noqa: BLE001
        return [(f"{n}/{name}/raised:{type(e).__name__}", f"{n}-{name}: compress_preparation_circuit raised {type(e).__name__}({e}) for a valid Clifford circuit of {len(ops_in)} gates", {})]
    if snapshot(qc) != before:
        fails.append((f"{n}/{name}/input-modified", f"{n}-{name}: the input circuit object was modified by compress_preparation_circuit", {}))
    if out is qc:
        fails.append((f"{n}/{name}/input-returned", f"{n}-{name}: the input circuit object itself was returned", {}))
    try:
        o_ops = libif.ops_of(out)
        psi_out = dense.run(o_ops, n)
    except dense.UnknownGate as e:
        raise fw.HarnessError(f"uninterpretable gate {e}")
    psi_in = dense.run([(o[0], o[1], ()) for o in ops_in], n)
    f = dense.fidelity(psi_in, psi_out)
    if abs(f - 1) > 1e-9:
        fails.append((f"{n}/{name}/orbit={orbit}/state", f"{n}-{name}: compressed circuit prepares a different state (fidelity {f:.6f}) than the input of {len(ops_in)} gates", {"observed": f, "expected": 1}))
    v = coupling_violation(o_ops, n, name)
    if v:
        fails.append((f"{n}/{name}/coupling", f"{n}-{name}: compressed circuit: {v}", {}))
    cid = tableinfo.class_of_orbit(n, name).get(orbit)
    if cid is not None and tableinfo.parsed(n, name)[cid] is not None:
        want = tableinfo.parsed(n, name)[cid][1]
        got = cost.twoq_count(o_ops)
        if got != want:
            fails.append((f"{n}/{name}/class={cid}/cost", f"{n}-{name}: compressed circuit has {got} two-qubit gates, the class cost is {want} (input had {cost.twoq_count(ops_in)})",
                          {"observed": got, "expected": want}))
    return fails


def classify(case):
    n, name = case["n"], case["connectivity"]
    ops_in = [(o[0], tuple(o[1])) for o in case["ops"]]
    gens = members.group_of_circuit(n, ops_in)
    orbit = lc.orbit_of(gens, n)
    k = cost.twoq_count(ops_in)
    cid = tableinfo.class_of_orbit(n, name).get(orbit)
    ccost = tableinfo.parsed(n, name)[cid][1] if cid is not None and tableinfo.parsed(n, name)[cid] else 0
    nt = (n, name, tuple(ops_in)) if (k >= 1 and orbit != 0 and k > ccost) else None
    L = len(ops_in)
    return nt, {"length_bucket": "0" if L == 0 else f"{(L - 1) // 50 * 50 + 1}-{(L - 1) // 50 * 50 + 50}", "config": f"{n}-{name}",
                "entangled": orbit != 0, "orbits_n%d" % n: orbit}


def shard(arg):
    seed, n_examples, deadline = arg
    from gen import hyp
    rep = fw.Report()
    fw.hyp_search(hyp.circuit_case(max_len=300), check_compress, rep, seed, n_examples, classify=classify, deadline_ts=deadline)
    return rep


def shard_named(arg):
    """named textbook states written as graph-state circuit + the same Clifford on every qubit, on every configuration"""
    n, seed, part, parts = arg
    from gen import named
    rep = fw.Report()
    for i, (label, gid, w, gens, circ) in enumerate(named.named_subjects(n)):
        if i % parts != part:
            continue
        for name in [c[1] for c in coupling.CONFIGS if c[0] == n]:
            case = {"n": n, "connectivity": name, "ops": circ, "format": "circuit"}
            nt, tabs = classify(case)
            rep.case(nt, dict(case, state=label) if (i % 70 == 9 and name == "all") else None)
            rep.count("config", f"{n}-{name}")
            rep.count("named_states", "n=%d" % n)
            for key, msg, extra in check_compress(case):
                rep.fail(key, case, msg + f" [named state {label}]", **extra)
    return rep


def shard_bell_swap(arg):
    """exhaustive family of very cheap inputs: a Bell pair created on a coupled pair and moved by one or two SWAPs between
    ARBITRARY qubits (h a; cx/cz a,b; swap ...): inputs whose own cost can be below the connectivity-respecting optimum"""
    n, name, seed, two_swaps = arg
    rep = fw.Report()
    edges = sorted(coupling.edge_set(n, name))
    pairs = [(i, j) for i in range(n) for j in range(i + 1, n)]
    i = 0
    for (a0, b0) in edges:
        for (a, b) in ((a0, b0), (b0, a0)):
            for gate in ("cx", "cz"):
                base = [["h", [a]]] + ([["h", [b]]] if gate == "cz" else []) + [[gate, [a, b]]]
                for s1 in pairs:
                    if not (set(s1) & {a, b}):
                        continue
                    seqs = [[["swap", list(s1)]]]
                    moved = {s1[0] if s1[1] in (a, b) else s1[1]}
                    for s2 in pairs:
                        if two_swaps and s2 != s1 and (set(s2) & (set(s1) | {a, b})) and fw.h64("c07bs", seed, n, name, a, b, s1, s2) % 3 == 0:
                            seqs.append([["swap", list(s1)], ["swap", list(s2)]])
                    for sw in seqs:
                        i += 1
                        case = {"n": n, "connectivity": name, "ops": base + sw, "format": "circuit"}
                        nt, tabs = classify(case)
                        rep.case(nt, case if i % 400 == 7 else None)
                        rep.count("config", f"{n}-{name}")
                        rep.count("bell_pair_moved_by_swaps", f"n={n}")
                        for key, msg, extra in check_compress(case):
                            rep.fail(key, case, msg + " [Bell pair moved by SWAPs]", **extra)
    return rep


def shard_classes(arg):
    """one constructed member of every (configuration, LC class), written as graph-state circuit + local gates"""
    n, orbits, seed = arg
    from gen import members as _m
    rep = fw.Report()
    for o in orbits:
        rng = fw.rng_for("c07c", seed, n, o)
        gens, info = _m.member(n, o, rng)
        circ = [["h", [q]] for q in range(n)] + [["cz", list(e)] for e in lc.edges_from_gid(n, info["graph"])] + info["layer"]
        for name in [c[1] for c in coupling.CONFIGS if c[0] == n]:
            case = {"n": n, "connectivity": name, "ops": circ, "format": "circuit"}
            nt, tabs = classify(case)
            rep.case(nt, None)
            rep.count("config", f"{n}-{name}")
            rep.count("one_member_per_class", "n=%d" % n)
            for key, msg, extra in check_compress(case):
                rep.fail(key, case, msg, **extra)
    return rep


def shard_table_frames(arg):
    """the graph-state circuit of the graph each table entry stores, followed by a drawn single-qubit Clifford on every qubit (k frames
    per entry): frames are taken relative to the very graph the local-layer search will be asked to reach"""
    n, name, cids, k, seed = arg
    from gen import tableinfo
    from gen import members as _m
    rep = fw.Report()
    ent = tableinfo.parsed(n, name)
    for cid in cids:
        if cid >= len(ent) or ent[cid] is None:
            continue
        gid = ent[cid][0]
        for j in range(k):
            rng = fw.rng_for("c07tf", seed, n, name, cid, j)
            circ = [["h", [q]] for q in range(n)] + [["cz", list(e)] for e in lc.edges_from_gid(n, gid)]
            for q in range(n):
                circ += [[g, [q]] for g in rng.choice(_m.LOCAL_WORDS)] + [[g, [q]] for g in rng.choice(_m.PAULI_WORDS)]
            case = {"n": n, "connectivity": name, "ops": circ, "format": "circuit"}
            nt, tabs = classify(case)
            rep.case(nt, None)
            rep.count("config", f"{n}-{name}")
            rep.count("table_graph_in_drawn_frame", "n=%d" % n)
            for key, msg, extra in check_compress(case):
                rep.fail(key, case, msg + " [table graph of the class in a drawn local frame]", **extra)
    return rep


def shard_idle(arg):
    """input circuits that never touch some qubits of the register (Bell pairs, GHZ, short lines, drawn sub-circuits on a subset)"""
    n, name, seed, quick = arg
    from gen import sparsecirc
    rep = fw.Report()
    for i, (label, circ) in enumerate(sparsecirc.sparse_circuits(n, seed, "c07idle", quick)):
        case = {"n": n, "connectivity": name, "ops": circ, "format": "circuit"}
        nt, tabs = classify(case)
        rep.case(nt, case if i % 300 == 11 else None)
        rep.count("config", f"{n}-{name}")
        rep.count("input_leaves_qubits_untouched", f"n={n}")
        for key, msg, extra in check_compress(case):
            rep.fail(key, case, msg + f" [input circuit {label} leaves qubits untouched]", **extra)
    return rep


def shard_any(arg):
    if arg[0] == "idle":
        return shard_idle(arg[1:])
    if arg[0] == "table-frames":
        return shard_table_frames(arg[1:])
    if arg[0] == "classes":
        return shard_classes(arg[1:])
    if arg[0] == "bellswap":
        return shard_bell_swap(arg[1:])
    if arg[0] == "named":
        return shard_named(arg[1:])
    return shard(arg)


def run(ctx):
    per = 100 if ctx.quick else 6000
    from gen import members as _m
    cargs = []
    for n in (6, 5, 4, 3, 2):
        for chunk in fw.split(_m.orbit_reps(n), {2: 1, 3: 1, 4: 1, 5: 6, 6: 64}[n]):
            cargs.append(("classes", n, chunk, ctx.seed))
    args = cargs + [("idle", n, name, ctx.seed, ctx.quick) for (n, name) in sorted(coupling.CONFIGS, key=lambda c: -c[0]) if n >= 3] + [("bellswap", n, name, ctx.seed, not ctx.quick) for (n, name) in sorted(coupling.CONFIGS, key=lambda c: -c[0])] + [("named", n, ctx.seed, part, {2: 1, 3: 1, 4: 2, 5: 6, 6: 16}[n]) for n in (6, 5, 4, 3, 2) for part in range({2: 1, 3: 1, 4: 2, 5: 6, 6: 16}[n])] + [(ctx.seed * 1000 + i, per, ctx.deadline) for i in range(16)]
    kc = {2: 2, 3: 5, 4: 18, 5: 93, 6: 760}
    for (n, name) in sorted(coupling.CONFIGS, key=lambda c: -c[0]):
        if ctx.quick and n == 6:
            continue      # quick: n <= 5 only (one frame per entry); thorough: 12 frames per entry of every table
        for chunk in fw.split(list(range(kc[n])), 1 if n < 6 else 8):
            args.append(("table-frames", n, name, chunk, 1 if ctx.quick else 12, ctx.seed))
    rep = fw.run_shards(ctx, "props.c07", "shard_any", args)
    rep.extra["classes_hit"] = {k[len("orbits_n"):]: len(v) for k, v in rep.hist.items() if k.startswith("orbits_n")}
    for k in [k for k in rep.hist if k.startswith("orbits_n")]:
        del rep.hist[k]
    rep.extra["exhaustive"] = False
    return rep


def replay(case):
    return [{"key": k, "msg": m, "case": case} for k, m, e in check_compress(case)]
