"""C14 -- all input formats of a stabilizer describe the same signed group."""
import numpy as np

import framework as fw
import libif
from oracle import dense, pauli, lc
from gen import members

RULE = ("(a) Hypothesis: signed generator lists for n = 2..6, both constructed valid stabilizers and ARBITRARY lists over "
        "{I,X,Y,Z} with optional sign prefix (parsing does not require validity); (b) all graphs on n <= 4 vertices and drawn "
        "graphs for n = 5, 6; (c) Hypothesis Clifford circuits over the documented gate set (0..60 gates). A case is one "
        "input in one format. Non-trivial = (strings) >= 1 Y, >= 1 minus sign and a non-palindromic string, so that order "
        "and sign conventions are observable; (graph) >= 1 edge and not invariant under vertex reversal; (circuit) >= 1 "
        "two-qubit gate; a third of the circuits is written with other qiskit idioms for the same gates (runs of Paulis as one "
        "`pauli` instruction, h-s-h as sx, sdg-cx-s as cy, barriers, a chunk wrapped into a sub-circuit gate/instruction) while "
        "the oracle keeps the plain gate list. Distinct by the input. Oracle: own strict parser (char i = qubit i, Hermitian Y), matrices "
        "column-by-column, X_v Z_N(v) from the adjacency bitmask, dense simulation of circuits, signed RREF canonical form.")
ASSUMPTIONS = ["own Pauli parser and signed canonical form (self-tested against dense matrices)", "dense simulator"]
BUDGET = {"quick": 300, "thorough": 2400}


def obj_data(stab):
    return (np.asarray(stab.R).astype(int).tolist(), np.asarray(stab.S).astype(int).tolist(), np.asarray(stab.phases).astype(int).tolist())


def check_strings(case):
    L = libif.lib()
    strs = list(case["strings"])
    n = len(strs)
    gens = [pauli.parse(s)[:3] for s in strs]
    full = [pauli.to_str(g, n) for g in gens]
    fails = []

    def bad(kind, msg):
        fails.append((f"strings/{kind}", f"{msg} [input {strs}]", {}))

    try:
        st = L.Stabilizer(list(strs))
    except Exception as e:  # noqa: BLE001
        return [("strings/ctor-raised", f"Stabilizer({strs}) raised {type(e).__name__}: {e}", {})]
    if st.num_qubits != n:
        bad("num_qubits", f"num_qubits = {st.num_qubits}")
        return fails
    Rw, Sw, pw = libif.paulis_to_matrices(gens, n)
    R, S, ph = obj_data(st)
    if R != Rw.astype(int).tolist() or S != Sw.astype(int).tolist():
        bad("matrices", f"R/S of the object differ from the column-by-column encoding: R={R} S={S}")
    if ph != pw.astype(int).tolist():
        bad("phases", f"phases {ph} differ from the signs of the strings {pw.tolist()}")
    try:
        out = st.to_list()
        if list(out) != full:
            bad("roundtrip", f"to_list() = {list(out)}, expected {full}")
        mir = st.to_list(qiskit_convention=True)
        want = [f[0] + f[1:][::-1] for f in full]
        if list(mir) != want:
            bad("mirror", f"to_list(qiskit_convention=True) = {list(mir)}, expected the mirror image {want}")
        # the same calls with the flag given positionally, as the documented signature to_list(qiskit_convention=False) allows
        # (a keyword-only flag would refuse the positional call with TypeError: that is an API decision, not a wrong export)
        try:
            mir_p, plain_p = st.to_list(True), st.to_list(False)
        except TypeError:
            mir_p, plain_p = want, full
        if list(mir_p) != want or list(plain_p) != full:
            bad("positional-flag", f"to_list(True) = {list(mir_p)} / to_list(False) = {list(plain_p)}, expected {want} / {full}")
        st2 = L.Stabilizer(list(out))
        if not (st2 == st) or obj_data(st2) != obj_data(st):
            bad("object-roundtrip", "Stabilizer(to_list(s)) != s")
    except Exception as e:  # noqa: BLE001
        bad("to_list-raised", f"to_list raised {type(e).__name__}: {e}")
    # matrices -> strings
    for dtype in (np.int8, np.int64, np.bool_, np.uint8, np.int32):
        try:
            st3 = L.Stabilizer((Rw.astype(dtype), Sw.astype(dtype), pw.astype(dtype)))
            if list(st3.to_list()) != full:
                bad("matrices-to-strings", f"Stabilizer((R,S,phases)).to_list() = {list(st3.to_list())}, expected {full}")
            if all(g[0] == 0 for g in gens):
                st4 = L.Stabilizer((Rw.astype(dtype), Sw.astype(dtype)))
                if list(st4.to_list()) != full:
                    bad("matrices-nophase", f"Stabilizer((R,S)).to_list() = {list(st4.to_list())}, expected {full}")
        except Exception as e:  # noqa: BLE001
            bad("matrices-raised", f"matrix constructor raised {type(e).__name__}: {e}")
    # X and Z matrices (and signs) of DIFFERENT element types in one call, e.g. an int8 identity next to a float adjacency matrix
    for (dr, ds, dp) in ((np.int8, np.float64, np.int64), (np.float64, np.int8, np.int8), (np.int64, np.bool_, np.uint8), (np.bool_, np.int8, np.bool_),
                         (np.int8, np.int32, np.float64)):
        try:
            st5 = L.Stabilizer((Rw.astype(dr), Sw.astype(ds), pw.astype(dp)))
            if list(st5.to_list()) != full:
                bad("matrices-mixed-dtypes", f"Stabilizer((R:{np.dtype(dr).name}, S:{np.dtype(ds).name}, phases:{np.dtype(dp).name})).to_list() = {list(st5.to_list())}, expected {full}")
        except Exception as e:  # noqa: BLE001
            bad("matrices-mixed-dtypes-raised", f"matrix constructor / export raised {type(e).__name__}: {e} for R:{np.dtype(dr).name}, S:{np.dtype(ds).name}, phases:{np.dtype(dp).name}")
    if not np.array_equal(Rw, libif.paulis_to_matrices(gens, n)[0]):
        bad("input-mutated", "input matrices modified")
    return fails


def check_graph(case):
    L = libif.lib()
    n, gid = case["n"], case["gid"]
    fails = []
    a = np.zeros((n, n), dtype=np.int8)
    for (i, j) in lc.edges_from_gid(n, gid):
        a[i, j] = a[j, i] = 1
    want = lc.graph_state_gens(n, gid)
    want_s = [pauli.to_str(g, n) for g in want]
    try:
        g = L.Graph(a.copy())
        st = L.Stabilizer(g)
        got = list(st.to_list())
        if got != want_s:
            fails.append((f"graph/generators", f"Stabilizer(graph {gid} on {n} vertices).to_list() = {got}, expected X_v Z_N(v): {want_s}", {}))
    except Exception as e:  # noqa: BLE001
        return [("graph/ctor-raised", f"Stabilizer(Graph) raised {type(e).__name__} for graph {gid} (n={n})", {})]
    # the same graph assembled with the builder methods, the way a user writes it: a star per vertex with the centre repeated among its
    # leaves ("connect v to every vertex of this list"), paths with an immediately repeated vertex, single edges in both orders
    try:
        gb = L.Graph(n)
        for v in range(n):
            nb = [u for u in range(n) if a[v, u]]
            if not nb:
                continue
            style = (gid + v) % 3
            if style == 0:
                gb.add_star([v] + sorted(nb + [v]))
            elif style == 1:
                for u in nb:
                    gb.add_path([u, v, v])
            else:
                for u in nb:
                    gb.add_edge(u, v)
                    gb.add_edge(v, u)
        gotb = list(L.Stabilizer(gb).to_list())
        if gotb != want_s:
            fails.append(("graph/built-with-methods", f"graph {gid} on {n} vertices assembled with add_star / add_path / add_edge (vertices repeated): "
                          f"Stabilizer(graph).to_list() = {gotb}, expected {want_s}", {}))
    except Exception as e:  # noqa: BLE001
        fails.append(("graph/builder-raised", f"assembling graph {gid} (n={n}) with add_star / add_path / add_edge raised {type(e).__name__}: {e}", {}))
    try:
        qc = g.to_circuit()
        st2 = L.Stabilizer(qc)
        g2 = libif.stabilizer_to_paulis(st2)
        if pauli.signed_canonical(g2, n) != pauli.signed_canonical(want, n):
            fails.append(("graph/to_circuit-group", f"Stabilizer(graph.to_circuit()) generates {list(st2.to_list())}, a different signed group than Stabilizer(graph) = {want_s}", {}))
        psi = dense.run(libif.ops_of(qc), n)
        for gg in want:
            if not dense.stabilised_by(psi, gg, n):
                fails.append(("graph/to_circuit-state", f"graph.to_circuit() for graph {gid} (n={n}) does not prepare the graph state ({pauli.to_str(gg, n)} does not stabilise it)", {}))
                break
    except Exception as e:  # noqa: BLE001
        fails.append((f"graph/to_circuit-raised:{type(e).__name__}", f"Graph.to_circuit / Stabilizer(circuit) raised {type(e).__name__}({e}) for graph {gid} on {n} vertices", {}))
    return fails


def check_circuit(case):
    L = libif.lib()
    n = case["n"]
    ops = [(o[0], tuple(o[1])) for o in case["ops"]]
    fails = []
    qc = libif.build_circuit(n, ops, case.get("registers"), form_salt=case.get("form_salt", 0))
    try:
        st = L.Stabilizer(qc)
        strs = list(st.to_list())
    except Exception as e:  # noqa: BLE001
        return [(f"circuit/ctor-raised:{type(e).__name__}", f"Stabilizer(circuit) raised {type(e).__name__}({e}) for a Clifford circuit of {len(ops)} gates on {n} qubits", {})]
    try:
        gens = [pauli.parse(s)[:3] for s in strs]
        assert len(gens) == n and all(pauli.parse(s)[3] == n for s in strs)
    except Exception:  # noqa: BLE001
        return [("circuit/format", f"Stabilizer(circuit).to_list() = {strs} is not a list of {n} Pauli strings", {})]
    psi = dense.run([(o[0], o[1], ()) for o in ops], n)
    for s, g in zip(strs, gens):
        ev = dense.expectation(psi, g, n)
        if abs(ev - 1) > 1e-9:
            kind = "sign" if abs(ev + 1) < 1e-9 else "group"
            fails.append((f"circuit/{kind}", f"exported generator {s} does not stabilise circuit|0..0> (<P> = {ev:+.3f}); circuit {libif.plain_ops(ops)}{' written as ' + str(libif.idiomatic(ops, case['form_salt'])) if case.get('form_salt') else ''}", {}))
            break
    if not pauli.is_valid_stabilizer(gens, n):
        fails.append(("circuit/independence", f"exported strings {strs} are not {n} commuting independent Paulis", {}))
    elif pauli.signed_canonical(gens, n) != pauli.signed_canonical(members.group_of_circuit(n, ops), n):
        fails.append(("circuit/group", f"object built from the circuit generates {strs}, not the stabilizer group of circuit|0..0>", {}))
    # object data consistent with its own export
    R, S, ph = obj_data(st)
    Rw, Sw, pw = libif.paulis_to_matrices(gens, n)
    if R != Rw.astype(int).tolist() or S != Sw.astype(int).tolist() or ph != pw.astype(int).tolist():
        fails.append(("circuit/data-vs-export", "R/S/phases of the object do not match its exported strings", {}))
    return fails


def written_form(case):
    if not case.get("form_salt"):
        return "plain gates"
    names = sorted({o[0] for o in libif.idiomatic([(o[0], tuple(o[1])) for o in case["ops"]], case["form_salt"])} & {"pauli", "sx", "sxdg", "cy", "barrier", "sub"})
    return "idioms:" + ("+".join(names) or "none-applicable")


def check_case(case):
    return {"strings": check_strings, "graph": check_graph, "circuit": check_circuit}[case["kind"]](case)


def classify(case):
    k = case["kind"]
    if k == "strings":
        strs = case["strings"]
        hasY = any("Y" in s for s in strs)
        hasM = any(s.startswith("-") for s in strs)
        nonpal = any(s.lstrip("+-") != s.lstrip("+-")[::-1] for s in strs)
        nt = ("s", tuple(strs)) if (hasY and hasM and nonpal) else None
        return nt, {"kind": "strings:" + case.get("sub", "?"), "strings_n": len(strs)}
    if k == "graph":
        n, gid = case["n"], case["gid"]
        rev = lc.gid_from_edges(n, [(n - 1 - j, n - 1 - i) for (i, j) in lc.edges_from_gid(n, gid)])
        return (("g", n, gid) if (gid and rev != gid) else None), {"kind": "graph", "graph_n": n}
    ops = case["ops"]
    two = any(len(o[1]) == 2 for o in ops)
    return (("c", case["n"], tuple((o[0], tuple(o[1])) for o in ops), tuple(case.get("registers", ()))) if two else None), \
        {"kind": "circuit", "circuit_n": case["n"], "circuit_registers": len(case.get("registers", [1])),
         "circuit_written": written_form(case)}


def strategy():
    from hypothesis import strategies as st
    from gen import hyp
    from gen import sweep

    @st.composite
    def string_cases(draw):
        n = draw(st.sampled_from([2, 3, 4, 5, 6]))
        sub = draw(st.sampled_from(["valid", "arbitrary", "arbitrary"]))
        if sub == "valid":
            gens, _, _ = draw(hyp.member_gens(n))
            style = draw(st.sampled_from(["always", "minimal"]))
            strs = libif.paulis_to_strings(gens, n, style)
        else:
            strs = []
            for _ in range(n):
                body = "".join(draw(st.lists(st.sampled_from("IXYZ"), min_size=n, max_size=n)))
                strs.append(draw(st.sampled_from(["", "+", "-"])) + body)
        return {"kind": "strings", "strings": strs, "sub": sub}

    @st.composite
    def graph_cases(draw):
        n = draw(st.sampled_from([5, 6]))
        return {"kind": "graph", "n": n, "gid": draw(st.integers(0, (1 << (n * (n - 1) // 2)) - 1))}

    @st.composite
    def circ_cases(draw):
        n = draw(st.sampled_from([2, 3, 4, 5, 6]))
        case = {"kind": "circuit", "n": n, "ops": draw(hyp.clifford_ops(n, max_len=draw(st.sampled_from([20, 60, 60, 200]))))}
        if draw(st.integers(0, 2)) == 0:      # the same circuit spread over several quantum registers
            cuts = sorted(set(draw(st.lists(st.integers(1, n - 1), min_size=1, max_size=2))))
            case["registers"] = [b - a for a, b in zip([0] + cuts, cuts + [n])]
        case["form_salt"] = draw(st.sampled_from([0, 0, 1])) and draw(st.integers(1, 10 ** 6))
        return case
    return st.one_of(string_cases(), string_cases(), circ_cases(), graph_cases())


def shard(arg):
    kind = arg[0]
    rep = fw.Report()
    if kind == "graphs":
        for n in (2, 3, 4):
            for gid in range(1 << (n * (n - 1) // 2)):
                case = {"kind": "graph", "n": n, "gid": gid}
                nt, tabs = classify(case)
                rep.case(nt, case if gid == 5 else None)
                rep.count("kind", "graph(exhaustive n<=4)")
                for key, msg, extra in check_graph(case):
                    rep.fail(key, case, msg, **extra)
        for n in (5, 6):   # always include the edgeless and the complete graph
            for gid in (0, (1 << (n * (n - 1) // 2)) - 1):
                case = {"kind": "graph", "n": n, "gid": gid}
                rep.case(None)
                for key, msg, extra in check_graph(case):
                    rep.fail(key, case, msg, **extra)
        return rep
    _, seed, n_examples, deadline = arg
    fw.hyp_search(strategy(), check_case, rep, seed, n_examples, classify=classify, deadline_ts=deadline)
    return rep


def run(ctx):
    per = 150 if ctx.quick else 40000
    args = [("graphs",)] + [("hyp", ctx.seed * 1000 + i, per, ctx.deadline) for i in range(16)]
    rep = fw.run_shards(ctx, "props.c14", "shard", args)
    rep.extra["exhaustive"] = False
    rep.extra["exhaustive_part"] = "all graphs on n <= 4 vertices (graph and graph->circuit formats)"
    return rep


def replay(case):
    return [{"key": k, "msg": m, "case": case} for k, m, e in check_case(case)]
