"""C18 -- GF(2) linear algebra routines are correct for every binary matrix."""
import itertools

import numpy as np

import framework as fw
import libif

RULE = ("(a) exhaustive: every binary matrix of every shape m x n with m, n >= 1 and m*n <= 12 (35 978 matrices); "
        "(b) Hypothesis: shapes up to 40 x 28 drawn from seven distributions (uniform, low-rank product, full column "
        "rank, sparse, layer-search shapes, duplicate+zero rows, pivots in the last columns, wide matrices up to 96 columns made of long runs of ones / very dense), dtypes int8/int32/int64/uint8/bool and memory layouts (C, Fortran, strided view, transposed view, read-only). A case is one matrix; non-trivial = rank-deficient with "
        ">= 2 free columns, or full column rank (trivial kernel); distinct by (shape, rows). Oracle: own bitmask "
        "elimination, plus brute-force span / kernel enumeration when <= 12 rows / columns. A share of the cases is preceded by calls "
        "on related matrices (same entries reshaped, transposed, other dtype, one bit flipped): answers must not depend on history.")
ASSUMPTIONS = ["numpy integer arithmetic", "own bitmask Gaussian elimination cross-checked by brute-force enumeration on all small cases"]
BUDGET = {"quick": 120, "thorough": 1500}
DTYPES = ["int8", "int32", "int64", "uint8", "bool"]
LAYOUTS = ["C", "F", "strided-view", "transposed-view", "readonly"]


# ---- oracle -------------------------------------------------------------------------------

def my_rref(rows, n):
    """unique RREF (list of m ints, bit c = column c, pivot = lowest column index), pivot columns"""
    rows = list(rows)
    m = len(rows)
    piv = []
    h = 0
    for c in range(n):
        if h >= m:
            break
        p = None
        for i in range(h, m):
            if rows[i] >> c & 1:
                p = i
                break
        if p is None:
            continue
        rows[h], rows[p] = rows[p], rows[h]
        for i in range(m):
            if i != h and (rows[i] >> c & 1):
                rows[i] ^= rows[h]
        piv.append(c)
        h += 1
    return rows, piv


def span_set(rows):
    out = {0}
    for r in rows:
        out |= {e ^ r for e in out}
    return out


def kernel_set(rows, n):
    return {v for v in range(1 << n) if all((bin(r & v).count("1") & 1) == 0 for r in rows)}


def to_np(rows, n, dtype):
    a = np.zeros((len(rows), n), dtype=dtype)
    for i, r in enumerate(rows):
        for c in range(n):
            a[i, c] = (r >> c) & 1
    return a


def from_np(a):
    out = []
    for row in np.asarray(a):
        v = 0
        for c, e in enumerate(row):
            if int(e) & 1:
                v |= 1 << c
        out.append(v)
    return out


def is_binary(a):
    a = np.asarray(a)
    return a.size == 0 or bool(np.all((a == 0) | (a == 1)))


# ---- predicate ----------------------------------------------------------------------------

def check_matrix(case):
    L = libif.lib()
    f2 = L.f2
    rows, n, dtype = case["rows"], case["n"], case.get("dtype", "int8")
    m = len(rows)
    fails = []

    def bad(key, msg, **extra):
        pre = f" after calls on {case['prelude']} variants" if case.get("prelude") else ""
        lay = f" layout={case['layout']}" if case.get("layout", "C") != "C" else ""
        fails.append((key, f"{msg} [matrix {m}x{n} rows={rows} dtype={dtype}{lay}{pre}]", extra))

    A = to_np(rows, n, dtype)
    layout = case.get("layout", "C")
    if layout == "F":
        A = np.asfortranarray(A)
    elif layout == "strided-view":
        big = np.zeros((2 * m, 2 * n), dtype=A.dtype)
        big[::2, ::2] = A
        A = big[::2, ::2]
    elif layout == "transposed-view":
        A = np.ascontiguousarray(A.T).T
    elif layout == "readonly":
        A.setflags(write=False)
    A0 = A.copy()
    # history: the routines are called on related matrices first (same entries in another shape / transposed / other dtype /
    # the previous matrix of the sweep); the answers for A below must not depend on that
    for pk in case.get("prelude", []):
        try:
            if pk == "reshape":
                P = None
                for m2 in range(1, m * n + 1):
                    if (m * n) % m2 == 0 and m2 != m:
                        P = A.reshape(m2, (m * n) // m2).copy()
                        break
                if P is None:
                    continue
            elif pk == "transpose":
                P = A.T.copy()
            elif pk == "dtype":
                P = A.astype(np.int16 if dtype != "int16" else np.int8)
            elif pk == "flip":
                P = A.copy()
                P[0, 0] ^= 1
            else:
                continue
            f2.rref(P); f2.rank(P); f2.null_space(P); f2.rref_and_basis_change(P)
        except Exception:  # noqa: BLE001
            pass
    want_rref, want_piv = my_rref(rows, n)
    r = len(want_piv)
    small = m <= 12 and n <= 12
    if small:  # brute force cross-check of the oracle itself and of the row space
        assert span_set(want_rref) == span_set(rows), "oracle rref changed the row space"
        assert len(span_set(rows)) == 1 << r, "oracle rank wrong"

    # rref
    try:
        R, piv = f2.rref(A)
        R = np.asarray(R)
        if R.shape != (m, n):
            bad("rref:shape", f"rref returned shape {R.shape}")
        elif not is_binary(R):
            bad("rref:nonbinary", "rref returned non-binary entries")
        else:
            got = from_np(R)
            if got != want_rref:
                bad("rref:value", f"rref returned rows {got}, the unique RREF is {want_rref}")
            elif small and span_set(got) != span_set(rows):
                bad("rref:rowspace", "row space changed")
        if list(map(int, piv)) != want_piv:
            bad("rref:pivots", f"pivot columns {list(piv)} != {want_piv}")
    except Exception as e:  # noqa: BLE001
        bad("rref:raised", f"rref raised {type(e).__name__}: {e}")
    # rank
    try:
        rk = f2.rank(A)
        if int(rk) != r:
            bad("rank:value", f"rank {rk} != {r}")
    except Exception as e:  # noqa: BLE001
        bad("rank:raised", f"rank raised {type(e).__name__}: {e}")
    # rref_and_basis_change
    try:
        res, M, Minv = f2.rref_and_basis_change(A)
        res, M, Minv = np.asarray(res), np.asarray(M), np.asarray(Minv)
        if res.shape != (m, n) or M.shape != (m, m) or Minv.shape != (m, m):
            bad("basis:shape", f"shapes {res.shape}, {M.shape}, {Minv.shape}")
        else:
            if from_np(res) != want_rref:
                bad("basis:rref", f"rref_and_basis_change returned rows {from_np(res)}, unique RREF is {want_rref}")
            if not (is_binary(M) and is_binary(Minv)):
                bad("basis:nonbinary", "M / M_inv not binary")
            MA = (M.astype(np.int64) @ A0.astype(np.int64)) % 2
            if not np.array_equal(MA, res.astype(np.int64) % 2):
                bad("basis:MA", "M*A != returned RREF")
            if not np.array_equal((M.astype(np.int64) @ Minv.astype(np.int64)) % 2, np.eye(m, dtype=np.int64)):
                bad("basis:inverse", "M*M_inv != I")
            if not np.array_equal((Minv.astype(np.int64) @ M.astype(np.int64)) % 2, np.eye(m, dtype=np.int64)):
                bad("basis:inverse", "M_inv*M != I")
    except Exception as e:  # noqa: BLE001
        bad("basis:raised", f"rref_and_basis_change raised {type(e).__name__}: {e}")
    # null space
    try:
        K = f2.null_space(A)
        if not isinstance(K, np.ndarray):
            bad("null:type", f"null_space returned {type(K).__name__}")
        else:
            if K.shape != (n - r, n):
                bad("null:shape", f"null_space returned shape {K.shape}, kernel basis must have shape {(n - r, n)}",
                    observed=list(K.shape), expected=[n - r, n])
            if not np.issubdtype(K.dtype, np.integer):
                bad("null:dtype", f"null_space returned dtype {K.dtype}, not an integer type")
            if K.ndim == 2 and K.shape[1] == n and K.shape[0] > 0:
                if not is_binary(K):
                    bad("null:nonbinary", "kernel basis not binary")
                else:
                    ks = from_np(K)
                    for v in ks:
                        if any(bin(rw & v).count("1") & 1 for rw in rows):
                            bad("null:notkernel", f"returned vector {v:b} is not in the kernel")
                            break
                    if len(my_rref(ks, n)[1]) != len(ks):
                        bad("null:dependent", "returned kernel vectors are linearly dependent")
                    if n <= 12 and K.shape[0] == n - r and span_set(ks) != kernel_set(rows, n):
                        bad("null:span", "returned vectors do not span the kernel")
    except Exception as e:  # noqa: BLE001
        bad("null:raised", f"null_space raised {type(e).__name__}: {e}")
    # helpers used by everything else
    try:
        # mat_mul / add are not named by the property; they are checked for integer matrices only (for boolean arrays numpy's
        # matrix product is OR-AND by definition -- flagging that was over-reach of an earlier version of this check)
        if m == n and dtype != "bool":
            P = f2.mat_mul(A, A)
            if not np.array_equal(np.asarray(P).astype(np.int64), (A0.astype(np.int64) @ A0.astype(np.int64)) % 2):
                bad("mat_mul:value", "mat_mul(A, A) wrong")
        S = f2.add(A, A)
        if np.any(np.asarray(S)):
            bad("add:value", "add(A, A) != 0")
    except Exception as e:  # noqa: BLE001
        bad("helpers:raised", f"mat_mul/add raised {type(e).__name__}: {e}")
    if not np.array_equal(A, A0):
        bad("input:mutated", "input matrix was modified")
    return fails


def classify(case):
    rows, n = case["rows"], case["n"]
    r = len(my_rref(rows, n)[1])
    free = n - r
    kind = "trivial-kernel" if free == 0 else ("free>=2" if free >= 2 else "free=1")
    nt = (n, tuple(rows)) if (free == 0 or free >= 2) else None
    return nt, {"kernel_kind": kind, "dtype": case.get("dtype", "int8"), "layout": case.get("layout", "C"), "prelude": "+".join(case.get("prelude", [])) or "none",
                "shape_bucket": f"{min(len(rows), 40) // 8 * 8}+x{n // 8 * 8}+"}


# ---- exhaustive part ----------------------------------------------------------------------

def small_shapes(limit=12):
    return [(m, n) for m in range(1, limit + 1) for n in range(1, limit + 1) if m * n <= limit]


def shard_exhaustive(arg):
    m, n, lo, hi = arg
    rep = fw.Report()
    mask = (1 << n) - 1
    for code in range(lo, hi):
        rows = [(code >> (i * n)) & mask for i in range(m)]
        case = {"rows": rows, "n": n, "dtype": DTYPES[code % 5] if (m * n) >= 6 else "int8"}
        if (code // 5) % 4 == 3:
            case["layout"] = LAYOUTS[(code // 20) % 5]
        pre = [[], ["reshape"], ["transpose"], ["flip"], ["reshape", "dtype"]][(code // 3) % 5]
        if pre:
            case["prelude"] = pre
        fails = check_matrix(case)
        nt, tabs = classify(case)
        rep.case(nt, case if code == (hi - 1) else None)
        rep.count("kernel_kind", tabs["kernel_kind"])
        rep.count("exhaustive_shape", f"{m}x{n}")
        for key, msg, extra in fails:
            k2 = key
            if k2 not in rep.extra.setdefault("_seen", {}):
                rep.extra["_seen"][k2] = 1
                rep.fail(key, case, msg, **extra)
    rep.extra.pop("_seen", None)
    return rep


# ---- Hypothesis part ----------------------------------------------------------------------

def strategy():
    from hypothesis import strategies as st

    @st.composite
    def mats(draw):
        kind = draw(st.sampled_from(["uniform", "lowrank", "fullcol", "sparse", "stabilizer-like", "duplicates+zero-rows", "late-pivots",
                                     "wide-runs-of-ones", "wide-dense"]))
        dtype = draw(st.sampled_from(DTYPES))
        if kind == "uniform":
            m = draw(st.integers(1, 40)); n = draw(st.integers(1, 28))
            rows = [draw(st.integers(0, (1 << n) - 1)) for _ in range(m)]
        elif kind == "lowrank":
            m = draw(st.integers(2, 40)); n = draw(st.integers(2, 28)); k = draw(st.integers(1, min(m, n, 6)))
            basis = [draw(st.integers(0, (1 << n) - 1)) for _ in range(k)]
            rows = []
            for _ in range(m):
                sel = draw(st.integers(0, (1 << k) - 1)); v = 0
                for j in range(k):
                    if sel >> j & 1:
                        v ^= basis[j]
                rows.append(v)
        elif kind == "fullcol":
            n = draw(st.integers(1, 24)); extra = draw(st.integers(0, 16))
            # start from identity, add random rows, mix by row additions => column rank n by construction
            rows = [1 << c for c in range(n)] + [draw(st.integers(0, (1 << n) - 1)) for _ in range(extra)]
            for _ in range(draw(st.integers(0, 3 * len(rows)))):
                i = draw(st.integers(0, len(rows) - 1)); j = draw(st.integers(0, len(rows) - 1))
                if i != j:
                    rows[i] ^= rows[j]
            rows = draw(st.permutations(rows))
        elif kind == "sparse":
            m = draw(st.integers(1, 40)); n = draw(st.integers(1, 28))
            rows = [0] * m
            for _ in range(draw(st.integers(0, 6))):
                rows[draw(st.integers(0, m - 1))] |= 1 << draw(st.integers(0, n - 1))
        elif kind == "wide-runs-of-ones":
            # wide matrices (up to 96 columns) whose rows are long runs of ones: all-ones, staircase, banded, plus a few random bits
            n = draw(st.integers(30, 96)); m = draw(st.integers(1, 10))
            rows = []
            for i in range(m):
                lo = draw(st.integers(0, n - 1)); hi = draw(st.integers(lo, n - 1))
                v = ((1 << (hi + 1)) - 1) & ~((1 << lo) - 1)
                for _ in range(draw(st.integers(0, 2))):
                    v ^= 1 << draw(st.integers(0, n - 1))
                rows.append(v)
        elif kind == "wide-dense":
            n = draw(st.integers(29, 96)); m = draw(st.integers(1, 12))
            dens = draw(st.sampled_from([2, 4, 16]))      # probability of a ZERO is 1/dens
            rows = []
            for _ in range(m):
                v = (1 << n) - 1
                for _k in range(n // dens + draw(st.integers(0, 3))):
                    v &= ~(1 << draw(st.integers(0, n - 1)))
                rows.append(v)
        elif kind == "duplicates+zero-rows":
            n = draw(st.integers(1, 28)); k = draw(st.integers(1, 6))
            pool = [draw(st.integers(0, (1 << n) - 1)) for _ in range(k)] + [0]
            rows = [draw(st.sampled_from(pool)) for _ in range(draw(st.integers(1, 40)))]
        elif kind == "late-pivots":
            # rank profile concentrated in the last columns: leading columns zero, wide matrices of full row rank
            n = draw(st.integers(2, 28)); lead = draw(st.integers(0, n - 1)); m = draw(st.integers(1, min(12, n - lead)))
            rows = []
            for i in range(m):
                v = (1 << (n - 1 - i)) | (draw(st.integers(0, (1 << n) - 1)) & ~((1 << lead) - 1))
                rows.append(v & ~((1 << lead) - 1) | (1 << (n - 1 - i)))
            rows = draw(st.permutations(rows))
        else:  # the shapes find_local_clifford_layer feeds: (n*m) x 4n
            q = draw(st.integers(2, 6)); k = draw(st.integers(1, q))
            m, n = q * k, 4 * q
            rows = [draw(st.integers(0, (1 << n) - 1)) for _ in range(m)]
        case = {"rows": list(rows), "n": n, "dtype": dtype, "kind": kind}
        lay = draw(st.sampled_from(LAYOUTS + ["C", "C", "C"]))
        if lay != "C":
            case["layout"] = lay
        pre = draw(st.sampled_from([[], [], ["reshape"], ["transpose"], ["flip"], ["dtype"], ["reshape", "transpose"]]))
        if pre:
            case["prelude"] = pre
        return case
    return mats()


def classify_h(case):
    nt, tabs = classify(case)
    tabs["distribution"] = case.get("kind", "?")
    return nt, tabs


def shard_hyp(arg):
    seed, n_examples, deadline = arg
    rep = fw.Report()
    fw.hyp_search(strategy(), check_matrix, rep, seed, n_examples, classify=classify_h, deadline_ts=deadline)
    return rep


def run(ctx):
    rep = fw.Report()
    args = []
    for (m, n) in small_shapes():
        total = 1 << (m * n)
        step = 1024
        for lo in range(0, total, step):
            args.append((m, n, lo, min(total, lo + step)))
    rep.merge(fw.run_shards(ctx, "props.c18", "shard_exhaustive", args))
    rep.extra["exhaustive_small_matrices"] = rep.evaluations
    per = 60 if ctx.quick else 10000
    hargs = [(ctx.seed * 1000 + i, per, ctx.deadline) for i in range(16)]
    rep.merge(fw.run_shards(ctx, "props.c18", "shard_hyp", hargs))
    rep.extra["exhaustive"] = False
    rep.extra["exhaustive_part"] = "all m x n matrices with m*n <= 12 visited completely in this run"
    return rep


def replay(case):
    return [{"key": k, "msg": m, "case": case} for k, m, e in check_matrix(case)]
