"""C19 -- graph / class codecs are bijective and local complementation is faithful (exhaustive)."""
import numpy as np

import framework as fw
import libif
from oracle import lc

RULE = ("exhaustive: every graph id 0..2^(n(n-1)/2)-1 for n = 2..6 (33 867 graphs) x every vertex; every class id for "
        "n = 2..6; every index of every to_*/from_* pair of linear_index. A case is (n, graph id[, vertex]) or "
        "(codec, index); non-trivial = graph not invariant under reversal of the vertex order (so the bit layout is "
        "observable) / class id whose grouping is not the trivial one; distinct by the case itself. Oracle: "
        "adjacency-bitmask re-implementation of the documented bit layout and of local complementation, LC-orbit table. Plus "
        "Hypothesis sequences of graph operations (add/remove edge, in-place complementation, swap, clear, path, copy) with "
        "compress()/decompress() after every step against a bitmask model (not exhaustive).")
ASSUMPTIONS = ["adjacency-bitmask oracle (self-tested)", "documented bit layout: row-major upper triangle, LSB first"]
KCOUNT = {2: 2, 3: 5, 4: 18, 5: 93, 6: 760}


def adj_of(graph, n):
    a = np.asarray(graph.adjacency_matrix)
    return a


def matrix_from_masks(n, adj):
    m = np.zeros((n, n), dtype=np.int64)
    for i in range(n):
        for j in range(n):
            m[i, j] = (adj[i] >> j) & 1
    return m


def reversed_gid(n, gid):
    e = [(n - 1 - j, n - 1 - i) for (i, j) in lc.edges_from_gid(n, gid)]
    return lc.gid_from_edges(n, e)


def lib_class_id(graph):
    L = libif.lib()
    return L.lc.determine_lc_class(L.Stabilizer(graph)).id()


def check_graph(n, gid, rep, do_class):
    L = libif.lib()
    G = L.Graph
    case0 = {"n": n, "gid": gid}

    def bad(kind, msg, case=None):
        rep.fail(f"{kind}:n={n}", case or case0, f"n={n} graph {gid}: {msg}")

    adj = lc.adj_from_gid(n, gid)
    want = matrix_from_masks(n, adj)
    try:
        g = G.decompress(n, gid)
    except Exception as e:  # noqa: BLE001
        bad("decompress-raised", f"decompress raised {type(e).__name__}: {e}")
        return
    a = np.asarray(g.adjacency_matrix).astype(np.int64)
    if a.shape != (n, n) or not np.array_equal(a, want):
        bad("decompress", f"decompress gives edges {g.get_edges()}, documented layout gives {lc.edges_from_gid(n, gid)}")
        return
    try:
        back = G(np.array(want, dtype=np.int8)).compress()
        if int(back) != gid:
            bad("compress", f"compress of the graph with edges {lc.edges_from_gid(n, gid)} gives {back}")
        if int(g.compress()) != gid:
            bad("roundtrip", f"compress(decompress(id)) = {g.compress()}")
    except Exception as e:  # noqa: BLE001
        bad("compress-raised", f"compress raised {type(e).__name__}: {e}")
    if sorted(map(tuple, g.get_edges())) != sorted(lc.edges_from_gid(n, gid)):
        bad("get_edges", "get_edges disagrees with adjacency")
    if int(g.edge_count()) != bin(gid).count("1"):
        bad("edge_count", f"edge_count {g.edge_count()}")
    cid0 = None
    if do_class:
        try:
            cid0 = lib_class_id(g)
        except Exception as e:  # noqa: BLE001
            bad("classify-raised", f"classifier raised {type(e).__name__} on a graph state")
    tab = lc.orbit_table(n)
    for v in range(n):
        case = {"n": n, "gid": gid, "vertex": v}
        want_adj = lc.local_complement(n, adj, v)
        want_m = matrix_from_masks(n, want_adj)
        try:
            h = g.local_complemented(v)
        except Exception as e:  # noqa: BLE001
            bad("lc-raised", f"local_complemented({v}) raised {type(e).__name__}: {e}", case)
            continue
        hm = np.asarray(h.adjacency_matrix).astype(np.int64)
        if not np.array_equal(np.asarray(g.adjacency_matrix).astype(np.int64), want):
            bad("lc-mutates", f"local_complemented({v}) modified the original graph", case)
            g = G.decompress(n, gid)
        if not np.array_equal(hm, want_m):
            bad("lc-value", f"local complementation at {v} gives edges {h.get_edges()}, expected "
                            f"{lc.edges_from_gid(n, lc.gid_from_adj(n, want_adj))}", case)
            continue
        if np.any(np.diag(hm)) or not np.array_equal(hm, hm.T) or not np.all((hm == 0) | (hm == 1)):
            bad("lc-simple", f"graph after complementation at {v} is not simple", case)
        g2 = h.copy()
        g2.local_complementation(v)
        if not np.array_equal(np.asarray(g2.adjacency_matrix).astype(np.int64), want):
            bad("lc-involution", f"complementing twice at {v} does not restore the graph", case)
        if tab[lc.gid_from_adj(n, want_adj)] != tab[gid]:
            raise fw.HarnessError("oracle: local complementation left the orbit")
        if do_class and cid0 is not None:
            try:
                cid1 = lib_class_id(h)
                if cid1 != cid0:
                    bad("lc-class", f"class id changes from {cid0} to {cid1} under local complementation at {v}", case)
            except Exception as e:  # noqa: BLE001
                bad("classify-raised", f"classifier raised {type(e).__name__} after complementation", case)


def shard_graphs(arg):
    n, lo, hi, do_class, stride = arg
    rep = fw.Report()
    for gid in range(lo, hi):
        dc = do_class and (stride == 1 or fw.h64("c19", n, gid) % stride == 0)
        check_graph(n, gid, rep, dc)
        nt = (n, gid) if reversed_gid(n, gid) != gid else None
        rep.case(nt, {"n": n, "gid": gid, "edges": lc.edges_from_gid(n, gid)} if gid == hi - 1 else None)
        rep.count("graphs_per_n", n)
        if dc:
            rep.count("graphs_with_class_check", n)
    return rep


# ---- class ids and grouping codecs ---------------------------------------------------------

PAIRS = [("0", 1, None), ("12", 3, 3), ("13", 4, 4), ("14", 5, 5), ("15", 6, 6), ("22", 3, 4), ("112", 6, 4),
         ("23", 10, 5), ("122", 15, 5), ("123", 60, 6), ("33", 10, 6), ("24", 15, 6), ("222", 15, 6),
         ("1122", 45, 6), ("1113", 20, 6), ("1122s", 90, 6)]


def repr_plain(r):
    return [[list(t.data) for t in grp] for grp in r.groups]


def check_codecs(rep):
    L = libif.lib()
    li = L.li
    for name, count, n in PAIRS:
        to, frm = getattr(li, "to_" + name), getattr(li, "from_" + name)
        seen = {}
        for k in range(count):
            case = {"codec": name, "index": k}
            try:
                r = to(k)
                plain = repr_plain(r)
                back = frm(r)
            except Exception as e:  # noqa: BLE001
                rep.fail(f"codec:{name}", case, f"linear_index {name} index {k}: raised {type(e).__name__}: {e}")
                rep.case(("codec", name, k))
                continue
            if back != k:
                rep.fail(f"codec:{name}", case, f"from_{name}(to_{name}({k})) = {back}", observed=back, expected=k)
            if n is not None:
                flat = sorted(x for grp in plain for t in grp for x in t)
                if flat != list(range(n)):
                    rep.fail(f"codec:{name}", case, f"to_{name}({k}) = {plain} is not a grouping of qubits 0..{n - 1}")
                sizes = "".join(str(len(t)) for grp in plain for t in grp)
                if sorted(sizes) != sorted(name.rstrip("s")):
                    rep.fail(f"codec:{name}", case, f"to_{name}({k}) = {plain} has the wrong group sizes")
            key = repr(plain)
            if key in seen:
                rep.fail(f"codec:{name}", case, f"to_{name} maps {seen[key]} and {k} to the same grouping {plain}")
            seen[key] = k
            # the same grouping written down differently (blocks of equal size in any order, elements in any order, sizes ascending
            # or descending) must encode to the same index; only the order of the two single qubits of '1122s' is documented as meaningful
            import itertools
            per_size = [list(itertools.permutations(grp)) for grp in plain]
            done = False
            for combo in itertools.product(*per_size):
                if done:
                    break
                if name == "1122s" and [list(b) for b in combo[0]] != plain[0]:
                    continue
                for size_order in (list(range(len(combo))), list(range(len(combo)))[::-1]):
                    blocks = [(list(reversed(b)) if (k % 2) else list(b)) for si in size_order for b in combo[si]]
                    if not blocks:
                        continue
                    try:
                        got = frm(li.Repr([list(b) for b in blocks]))
                    except Exception as e:  # noqa: BLE001
                        got = f"raised {type(e).__name__}"
                    rep.evaluations += 1
                    if got != k:
                        rep.fail(f"codec:{name}:written-form", dict(case, written=blocks),
                                 f"grouping {plain} of index {k} ({name}) written as {blocks} encodes to {got}", observed=got, expected=k)
                        done = True
                        break
            rep.case(("codec", name, k) if count > 1 else None, {"codec": name, "index": k, "grouping": plain} if k == count - 1 else None)
            rep.count("codec_indices", name)
    for n in range(2, 9):
        idx = 0
        for i in range(n - 1):
            for j in range(i + 1, n):
                case = {"codec": "n_choose_2", "n": n, "i": i, "j": j}
                try:
                    k = li.linear_index_from_n_choose_2(n, i, j)
                    ij = tuple(int(t) for t in li.linear_index_to_n_choose2_to(n, k))
                except Exception as e:  # noqa: BLE001
                    rep.fail("codec:n_choose_2", case, f"n_choose_2 raised {type(e).__name__}: {e}")
                    continue
                if k != idx or ij != (i, j):
                    rep.fail("codec:n_choose_2", case, f"pair index of ({i},{j}) in {n}: {k} (expected {idx}), decoded {ij}")
                idx += 1
                rep.case(("pair", n, i, j))
    # class ids
    for n in range(2, 7):
        cls = {2: L.lc.LCClass2, 3: L.lc.LCClass3, 4: L.lc.LCClass4, 5: L.lc.LCClass5, 6: L.lc.LCClass6}[n]
        case0 = {"n": n, "class_count": True}
        try:
            cnt = cls.count()
        except Exception as e:  # noqa: BLE001
            rep.fail(f"classid:count:n={n}", case0, f"count raised {type(e).__name__}")
            continue
        if cnt != KCOUNT[n]:
            rep.fail(f"classid:count:n={n}", case0, f"{cnt} class ids for n={n}, expected {KCOUNT[n]}")
        seen = {}
        for k in range(min(cnt, KCOUNT[n]) if cnt else 0):
            case = {"n": n, "class_id": k}
            try:
                c = cls(k)
                back = c.id()
                plain = repr_plain(c.data)
                c2 = cls(c.type, c.data)
                back2 = c2.id()
            except Exception as e:  # noqa: BLE001
                rep.fail(f"classid:n={n}", case, f"class id {k} (n={n}): raised {type(e).__name__}: {e}")
                continue
            if back != k or back2 != k:
                rep.fail(f"classid:n={n}", case, f"class id {k} (n={n}) decodes to {c.type.name} {plain} which encodes to {back}/{back2}")
            flat = sorted(x for grp in plain for t in grp for x in t)
            if flat and flat != list(range(n)):
                rep.fail(f"classid:n={n}", case, f"class id {k} (n={n}) decodes to {plain}, not a grouping of the {n} qubits")
            key = (int(c.type), repr(plain))
            if key in seen:
                rep.fail(f"classid:n={n}", case, f"class ids {seen[key]} and {k} decode to the same grouping")
            seen[key] = k
            rep.case(("class", n, k) if flat else None, {"n": n, "class_id": k, "type": c.type.name, "grouping": plain} if k == cnt - 1 else None)
            rep.count("class_ids", n)


def shard_codecs(arg):
    rep = fw.Report()
    check_codecs(rep)
    return rep


# ---- model-based sequences of graph operations (the graph object vs. an adjacency-bitmask model) ----------------

def check_graph_ops(case):
    L = libif.lib()
    n, gid0 = case["n"], case["gid"]
    fails = []
    how = case.get("construct", "decompress")
    try:
        if how == "decompress":
            g = L.Graph.decompress(n, gid0)
        else:
            # the same graph handed over as an adjacency matrix in different dtypes / memory layouts (Graph() adopts int8 arrays as is)
            a = matrix_from_masks(n, lc.adj_from_gid(n, gid0))
            if how == "int8-C":
                g = L.Graph(np.array(a, dtype=np.int8))
            elif how == "int8-F":
                g = L.Graph(np.asfortranarray(np.array(a, dtype=np.int8)))
            elif how == "int8-T":
                g = L.Graph(np.ascontiguousarray(np.array(a, dtype=np.int8).T).T)
            elif how == "int8-view":
                big = np.zeros((n + 2, n + 3), dtype=np.int8)
                big[1:n + 1, 2:n + 2] = a
                g = L.Graph(big[1:n + 1, 2:n + 2])
            elif how == "int64":
                g = L.Graph(np.array(a, dtype=np.int64))
            else:
                g = L.Graph(np.array(a, dtype=bool))
    except Exception as e:  # noqa: BLE001
        return [(f"graph-ops/raised:construct:{how}", f"n={n}: constructing graph {gid0} via {how} raised {type(e).__name__}({e})", {})]
    adj = lc.adj_from_gid(n, gid0)

    def model_edge(i, j, val):
        if i == j:
            return
        for a, b in ((i, j), (j, i)):
            if val:
                adj[a] |= 1 << b
            else:
                adj[a] &= ~(1 << b)

    for step, op in enumerate(case["ops"]):
        name = op[0]
        try:
            if name == "add":
                g.add_edge(op[1], op[2]); model_edge(op[1], op[2], 1)
            elif name == "remove":
                g.remove_edge(op[1], op[2]); model_edge(op[1], op[2], 0)
            elif name == "lc":
                g.local_complementation(op[1]); adj[:] = lc.local_complement(n, adj, op[1])
            elif name == "swap":
                i, j = op[1], op[2]
                g.swap(i, j)
                perm = list(range(n)); perm[i], perm[j] = perm[j], perm[i]
                new = [0] * n
                for a in range(n):
                    for b in range(n):
                        if adj[a] >> b & 1:
                            new[perm[a]] |= 1 << perm[b]
                adj[:] = new
            elif name == "clear":
                g.clear(); adj[:] = [0] * n
            elif name == "path":
                g.add_path(list(op[1]))
                for a, b in zip(op[1], op[1][1:]):
                    model_edge(a, b, 1)
            elif name == "isolate":
                g.remove_all_edges_to(op[1])
                for a in range(n):
                    model_edge(a, op[1], 0)
            elif name == "copy":
                g = g.copy()
            elif name == "compress":
                pass
        except Exception as e:  # noqa: BLE001
            fails.append((f"graph-ops/raised:{name}", f"n={n}: {name}{tuple(op[1:])} raised {type(e).__name__}({e}) at step {step} of {case['ops']} from graph {gid0}", {}))
            return fails
        want_gid = lc.gid_from_adj(n, adj)
        a = np.asarray(g.adjacency_matrix).astype(np.int64)
        if not np.array_equal(a, matrix_from_masks(n, adj)):
            fails.append((f"graph-ops/adjacency:{name}", f"n={n}: after {case['ops'][:step + 1]} from graph {gid0} the adjacency matrix differs from the model (expected graph {want_gid})", {}))
            return fails
        try:
            got = int(g.compress())
            back = L.Graph.decompress(n, got)
            if got != want_gid:
                fails.append((f"graph-ops/compress-after:{name}", f"n={n}: compress() = {got} after {case['ops'][:step + 1]} from graph {gid0}, the graph now is {want_gid}", {"observed": got, "expected": want_gid}))
                return fails
            if not (back == g):
                fails.append((f"graph-ops/decompress-roundtrip:{name}", f"n={n}: decompress(compress(g)) != g after {case['ops'][:step + 1]} from graph {gid0}", {}))
                return fails
            if int(g.edge_count()) != bin(want_gid).count("1") or sorted(map(tuple, g.get_edges())) != sorted(lc.edges_from_gid(n, want_gid)):
                fails.append((f"graph-ops/edges:{name}", f"n={n}: edge_count/get_edges wrong after {case['ops'][:step + 1]} from graph {gid0}", {}))
                return fails
        except Exception as e:  # noqa: BLE001
            fails.append((f"graph-ops/raised:compress", f"n={n}: compress/decompress raised {type(e).__name__} after {case['ops'][:step + 1]}", {}))
            return fails
    return fails


def graph_ops_strategy():
    from hypothesis import strategies as st

    @st.composite
    def cases(draw):
        n = draw(st.sampled_from([2, 3, 4, 5, 6]))
        gid = draw(st.integers(0, (1 << (n * (n - 1) // 2)) - 1))
        v = st.integers(0, n - 1)
        op = st.one_of(st.tuples(st.just("add"), v, v), st.tuples(st.just("remove"), v, v), st.tuples(st.just("lc"), v), st.tuples(st.just("lc"), v),
                       st.tuples(st.just("swap"), v, v), st.tuples(st.just("clear")), st.tuples(st.just("path"), st.lists(v, min_size=0, max_size=4)),
                       st.tuples(st.just("isolate"), v), st.tuples(st.just("copy")), st.tuples(st.just("compress")))
        ops = [list(o) for o in draw(st.lists(op, min_size=1, max_size=10))]
        how = draw(st.sampled_from(["decompress", "decompress", "int8-C", "int8-F", "int8-T", "int8-view", "int64", "bool"]))
        return {"n": n, "gid": gid, "ops": ops, "construct": how}
    return cases()


def classify_ops(case):
    kinds = {o[0] for o in case["ops"]}
    nt = ("ops", case["n"], case["gid"], repr(case["ops"])) if ("lc" in kinds and len(case["ops"]) >= 2) else None
    return nt, {"graph_op_sequences": f"n={case['n']}", "graph_construction": case.get("construct", "decompress")}


def shard_graph_ops(arg):
    seed, n_examples, deadline = arg
    rep = fw.Report()
    fw.hyp_search(graph_ops_strategy(), check_graph_ops, rep, seed, n_examples, classify=classify_ops, deadline_ts=deadline)
    return rep


def run(ctx):
    rep = fw.Report()
    args = [("codecs",)]
    rep.merge(fw.run_shards(ctx, "props.c19", "shard_codecs", args))
    gargs = []
    for n in range(2, 7):
        N = 1 << (n * (n - 1) // 2)
        step = 512
        # classifier on every graph and every complementation: all n <= 5 always; n = 6: 1 in 8 graphs in quick, all in thorough
        stride = 1 if (n <= 5 or not ctx.quick) else 8
        for lo in range(0, N, step):
            gargs.append((n, lo, min(N, lo + step), True, stride))
    rep.merge(fw.run_shards(ctx, "props.c19", "shard_graphs", gargs))
    oargs = [(ctx.seed * 1000 + i, 120 if ctx.quick else 25000, ctx.deadline) for i in range(16)]
    rep.merge(fw.run_shards(ctx, "props.c19", "shard_graph_ops", oargs))
    rep.extra["exhaustive"] = True
    rep.extra["exhaustive_note"] = ("codec / complementation predicates over all graphs, vertices, class ids and grouping indices; "
                                    "the library classifier is re-run on " + ("every" if not ctx.quick else "every n<=5 and 1/8 of the n=6")
                                    + " graphs and their complementations")
    return rep


def replay(case):
    rep = fw.Report()
    if "ops" in case:
        return [{"key": k, "msg": m, "case": case} for k, m, e in check_graph_ops(case)]
    if "gid" in case:
        check_graph(case["n"], case["gid"], rep, True)
        if "vertex" in case:
            return [f for f in rep.failures if f["case"].get("vertex", case["vertex"]) == case["vertex"]] or rep.failures
        return rep.failures
    check_codecs(rep)
    out = []
    for f in rep.failures:
        c = f["case"]
        if all(c.get(k) == v for k, v in case.items()):
            out.append(f)
    return out
