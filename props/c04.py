"""C04 -- two-qubit cost and depth depend only on the LC class and equal the lookup metadata."""
import time

import framework as fw
import libif
from oracle import pauli, lc, cost, coupling
from gen import members, sweep, tableinfo

RULE = ("for every (n, connectivity, LC class): k members constructed with independent local complementations, local "
        "Cliffords, generator bases and signs (quick k=3 for n<=5 and k=1 for n=6; thorough k=8 / 4), each sent through "
        "get_preparation_circuit, get_readout_circuit and (as a graph-state circuit + local gates) "
        "compress_preparation_circuit; additionally every graph on n <= 5 vertices (and drawn six-vertex graphs) presented literally in "
        "graph form (Graph object or canonical generator strings), whatever its edge count; and, per configuration, input circuits that "
        "leave part of the register untouched (all Bell pairs, GHZ stars/chains, pairs of Bell pairs, 4-qubit lines on a subset, drawn "
        "sub-circuits on k < n qubits; entangling gates between arbitrary qubits); and the graph state of every table entry with a two- or "
        "three-gate Clifford (sh, hs, hsh) on EVERY qubit (1 / 6 frames per entry). A case is one returned circuit. Non-trivial = class cost >= 1 and the member differs "
        "from the table's representative by a local layer or basis change; distinct by (n, connectivity, canonical group, API). "
        "Oracle: own two-qubit counter (swap = 3) and ASAP two-qubit depth on the returned instruction list, compared with "
        "stabilizer_circuit_lookup(n, connectivity, id).cost/.depth where id is the table line whose graph lies in the "
        "member's LC orbit (oracle classification).")
ASSUMPTIONS = ["LC-orbit oracle for the class of a member", "own gate counter / ASAP depth (self-tested)", "strict table parser"]
BUDGET = {"quick": 400, "thorough": 3000}


def check_member(case):
    L = libif.lib()
    n, name = case["n"], case["connectivity"]
    gens = [pauli.parse(s)[:3] for s in case["strings"]]
    orbit = lc.orbit_of(gens, n)
    cid = tableinfo.class_of_orbit(n, name).get(orbit)
    fails = []
    if cid is None:
        return [(f"{n}/{name}/orbit={orbit}/no-table-entry", f"{n}-{name}: no table entry whose graph lies in LC orbit {orbit}", {})], []
    try:
        info = L.lookup.stabilizer_circuit_lookup(n, name, cid)
        m_cost, m_depth = int(info.cost), int(info.depth)
    except Exception as e:  # noqa: BLE001
        return [(f"{n}/{name}/class={cid}/lookup-raised", f"{n}-{name}: stabilizer_circuit_lookup raised {type(e).__name__} for class {cid}", {})], []
    entry = tableinfo.parsed(n, name)[cid]
    t_multi = cost.twoq_multiset(entry[3]) if entry else None
    results = []
    apis = []
    try:
        stab = sweep.make_stabilizer(n, gens, case.get("format", "strings+sign"), case.get("graph_gid"))
    except Exception as e:  # noqa: BLE001
        return [(f"{n}/{name}/class={cid}/ctor-raised", f"{n}-{name}: Stabilizer() raised {type(e).__name__} for {case['strings']}", {})], []
    apis.append(("preparation", lambda: L.sc.get_preparation_circuit(stab, name)))
    apis.append(("readout", lambda: L.sc.get_readout_circuit(sweep.make_stabilizer(n, gens, "strings+sign"), name)))
    if case.get("circuit"):
        ops_in = [(o[0], tuple(o[1])) for o in case["circuit"]]
        apis.append(("compress", lambda: L.sc.compress_preparation_circuit(libif.build_circuit(n, ops_in), name)))
    for api, call in apis:
        try:
            qc = call()
        except Exception as e:  # noqa: BLE001
            fails.append((f"{n}/{name}/class={cid}/{api}:raised", f"{n}-{name} class {cid}: {api} raised {type(e).__name__}({e}) for {case['strings']}", {}))
            continue
        ops = [(o[0], tuple(o[1])) for o in libif.ops_of(qc)]
        c, d = cost.twoq_count(ops), cost.twoq_depth(ops)
        results.append((api, c, d))
        if c != m_cost:
            fails.append((f"{n}/{name}/class={cid}/{api}:cost", f"{n}-{name} class {cid}: {api} circuit for {case['strings']} has {c} two-qubit gates, lookup metadata says {m_cost}",
                          {"observed": c, "expected": m_cost}))
        if d != m_depth:
            fails.append((f"{n}/{name}/class={cid}/{api}:depth", f"{n}-{name} class {cid}: {api} circuit for {case['strings']} has two-qubit depth {d}, lookup metadata says {m_depth}",
                          {"observed": d, "expected": m_depth}))
        if t_multi is not None and cost.twoq_multiset(ops) != t_multi:
            # informational only: the property speaks of counts and depth; an implementation that hands out a different circuit of
            # the same cost and depth is not in violation (an earlier version of this check flagged it -- over-reach, removed)
            results[-1] = results[-1] + ("other-twoq-gates-than-table-line",)
    return fails, results


def shard(arg):
    n, orbits, k, seed, deadline = arg
    rep = fw.Report()
    i = 0
    for o in orbits:
        for j in range(k):
            if deadline and time.time() > deadline:
                rep.truncated = True
                return rep
            rng = fw.rng_for("c04", seed, n, o, j)
            gens, info = members.member(n, o, rng)
            circ = [["h", [q]] for q in range(n)] + [["cz", list(e)] for e in lc.edges_from_gid(n, info["graph"])] + info["layer"]
            differs = bool(info["layer"]) or [tuple(g) for g in gens] != lc.graph_state_gens(n, info["graph"])
            fmts = sweep.applicable_formats(gens, n)
            for name in sweep.configs(n):
                i += 1
                case = {"n": n, "connectivity": name, "strings": sweep.strings(gens, n), "format": fmts[i % len(fmts)], "circuit": circ}
                fails, results = check_member(case)
                canon = pauli.canonical_group(gens, n)
                for res in results:
                    api, c, d = res[:3]
                    if len(res) > 3:
                        rep.count("informational", res[3])
                    rep.case((n, name, canon, api) if (c >= 1 and differs) else None,
                             {"n": n, "connectivity": name, "strings": case["strings"], "api": api, "twoq": c, "depth": d} if (i % 700 == 1 and api == "readout") else None)
                    rep.count("circuits_per_api", api)
                rep.count("members_per_config", f"{n}-{name}")
                for key, msg, extra in fails:
                    rep.fail(key, case, msg, **extra)
    return rep


def shard_graphs(arg):
    """states presented literally in graph form (canonical generators X_v Z_N(v), as Graph object or strings) for arbitrary --
    not edge-minimal, possibly disconnected -- graphs: the cost must still be that of the class"""
    n, gids, seed, deadline = arg
    rep = fw.Report()
    for i, gid in enumerate(gids):
        if deadline and time.time() > deadline:
            rep.truncated = True
            break
        gens = lc.graph_state_gens(n, gid)
        sv = fw.h64("c04g", seed, n, gid) % (1 << n) if i % 3 == 2 else 0
        g2 = members.apply_signs(gens, sv)
        circ = [["h", [q]] for q in range(n)] + [["cz", list(e)] for e in lc.edges_from_gid(n, gid)]
        for name in sweep.configs(n):
            case = {"n": n, "connectivity": name, "strings": sweep.strings(g2, n),
                    "format": "graph" if (sv == 0 and i % 2 == 0) else "strings+sign", "circuit": circ if i % 4 == 0 else None}
            if case["format"] == "graph":
                case["graph_gid"] = gid
            fails, results = check_member(case)
            canon = pauli.canonical_group(g2, n)
            for res in results:
                api, c, d = res[:3]
                rep.case((n, name, canon, api, "graph-form") if c >= 1 else None,
                         {"n": n, "connectivity": name, "graph": gid, "api": api, "twoq": c, "depth": d} if (i % 500 == 3 and api == "preparation") else None)
                rep.count("circuits_per_api", api + "(graph-form input)")
            for key, msg, extra in fails:
                rep.fail(key, case, msg + " [input in graph form]", **extra)
    return rep


def shard_named(arg):
    """named textbook states in uniform frames: cost and depth must be those of their class"""
    n, part, parts, seed, deadline = arg
    from gen import named
    rep = fw.Report()
    for i, (label, gid, w, gens, circ) in enumerate(named.named_subjects(n)):
        if i % parts != part:
            continue
        for name in sweep.configs(n):
            case = {"n": n, "connectivity": name, "strings": sweep.strings(gens, n), "format": "strings+sign", "circuit": circ if i % 2 == 0 else None}
            fails, results = check_member(case)
            canon = pauli.canonical_group(gens, n)
            for res in results:
                api, c, d = res[:3]
                rep.case((n, name, canon, api, "named") if c >= 1 else None, None)
                rep.count("circuits_per_api", api + "(named state)")
            for key, msg, extra in fails:
                rep.fail(key, case, msg + f" [named state {label}]", **extra)
    return rep


def shard_idle(arg):
    """input circuits that leave part of the register untouched: cost and depth of what comes back are still those of the class,
    however the idle qubits are (not) written"""
    n, name, seed, quick = arg
    from gen import sparsecirc
    rep = fw.Report()
    for i, (label, circ) in enumerate(sparsecirc.sparse_circuits(n, seed, "c04idle", quick)):
        gens = members.group_of_circuit(n, [(o[0], tuple(o[1])) for o in circ])
        case = {"n": n, "connectivity": name, "strings": sweep.strings(gens, n), "format": "strings+sign", "circuit": circ}
        fails, results = check_member(case)
        canon = pauli.canonical_group(gens, n)
        for res in results:
            api, c, d = res[:3]
            rep.case((n, name, canon, api, "idle") if c >= 1 else None, dict(case, api=api, twoq=c, depth=d) if (i == 7 and api == "compress") else None)
            rep.count("circuits_per_api", api + "(input with idle qubits)")
        for key, msg, extra in fails:
            rep.fail(key, case, msg + f" [input circuit {label} leaves qubits untouched]", **extra)
    return rep


HEAVY_WORDS = [("s", "h"), ("h", "s"), ("h", "s", "h")]


def shard_heavy(arg):
    """the graph state each table entry stores, in a frame where EVERY qubit carries a two- or three-gate Clifford (sh, hs, hsh) -- the
    frames in which the local correction is longest; probability (1/2)^n under independent per-qubit sampling"""
    n, name, cids, k, seed = arg
    rep = fw.Report()
    ent = tableinfo.parsed(n, name)
    for cid in cids:
        if cid >= len(ent) or ent[cid] is None:
            continue
        gid = ent[cid][0]
        for j in range(k):
            rng = fw.rng_for("c04heavy", seed, n, name, cid, j)
            layer = [(g, (q,)) for q in range(n) for g in rng.choice(HEAVY_WORDS)]
            gens = [pauli.propagate(g, layer) for g in lc.graph_state_gens(n, gid)]
            if j % 2:
                gens = members.random_basis_change(gens, rng)
            gens = members.apply_signs(gens, rng.randrange(1 << n))
            circ = [["h", [q]] for q in range(n)] + [["cz", list(e)] for e in lc.edges_from_gid(n, gid)] + [[g, list(q)] for g, q in layer]
            case = {"n": n, "connectivity": name, "strings": sweep.strings(gens, n), "format": "strings+sign", "circuit": circ if j == 0 else None}
            fails, results = check_member(case)
            canon = pauli.canonical_group(gens, n)
            for res in results:
                api, c, d = res[:3]
                rep.case((n, name, canon, api, "heavy") if c >= 1 else None, None)
                rep.count("circuits_per_api", api + "(table graph, every qubit in a heavy frame)")
            for key, msg, extra in fails:
                rep.fail(key, case, msg + " [table graph with sh / hs / hsh on every qubit]", **extra)
    return rep


def shard_any(arg):
    if arg[0] == "heavy":
        return shard_heavy(arg[1:])
    if arg[0] == "idle":
        return shard_idle(arg[1:])
    if arg[0] == "named":
        return shard_named(arg[1:])
    if arg[0] == "graphs":
        return shard_graphs(arg[1:])
    return shard(arg)


def run(ctx):
    q = ctx.quick
    args = []
    for n in range(2, 6):
        N = 1 << (n * (n - 1) // 2)
        for chunk in fw.split(list(range(N)), 1 if n < 5 else 16):
            args.append(("graphs", n, chunk, ctx.seed, ctx.deadline))
    for n in range(2, 7):
        parts = {2: 1, 3: 1, 4: 2, 5: 6, 6: 16}[n]
        for part in range(parts):
            args.append(("named", n, part, parts, ctx.seed, ctx.deadline))
    rng = fw.rng_for("c04g6", ctx.seed)
    for chunk in fw.split(sorted(rng.sample(range(1 << 15), 320 if q else 12000)), 16):
        args.append(("graphs", 6, chunk, ctx.seed, ctx.deadline))
    for n in range(2, 7):
        reps = members.orbit_reps(n)
        k = (3 if n <= 5 else 1) if q else (20 if n <= 5 else 10)
        for chunk in fw.split(reps, {2: 1, 3: 1, 4: 2, 5: 12, 6: 96}[n]):
            args.append((n, chunk, k, ctx.seed, ctx.deadline))
    for (n, name) in coupling.CONFIGS:
        if n >= 3:
            args.append(("idle", n, name, ctx.seed, q))
    kc = {2: 2, 3: 5, 4: 18, 5: 93, 6: 760}
    for (n, name) in coupling.CONFIGS:
        for chunk in fw.split(list(range(kc[n])), 1 if n < 6 else 4):
            args.append(("heavy", n, name, chunk, 1 if q else 6, ctx.seed))
    args.sort(key=lambda a: -(a[1] if a[0] in ("graphs", "named", "idle", "heavy") else a[0]))
    rep = fw.run_shards(ctx, "props.c04", "shard_any", args)
    rep.extra["exhaustive"] = False
    rep.extra["exhaustive_part"] = "every (configuration, class) pair is visited with at least one member in every run; members are sampled"
    return rep


def replay(case):
    fails, _ = check_member(case)
    return [{"key": k, "msg": m, "case": case} for k, m, e in fails]
