"""C17 -- every lookup-table entry is internally consistent (exhaustive over every line on disk)."""
import glob
import os
import re

import numpy as np

import framework as fw
import libif
from oracle import dense, pauli, lc, cost, coupling, tables

RULE = ("exhaustive enumeration of every line of every stabilizer<n>-<name>.txt in the data directory "
        "(advertised or stray); a case is one table line; non-trivial = line whose circuit has >= 1 "
        "two-qubit gate; distinct by (file, line index). Per line: strict tokenizer, differential against "
        "the library parser, dense simulation against the decoded graph's generators, LC-orbit of the graph "
        "vs. orbit paired with the line number, cost/depth columns vs. own gate counter, coupling table.")
ASSUMPTIONS = ["dense simulator and LC-orbit oracle (self-tested each run)",
               "Van den Nest theorem: LC-equivalence of graph states = local-complementation orbit",
               "coupling table transcribed from README/docstrings"]
KCOUNT = {2: 2, 3: 5, 4: 18, 5: 93, 6: 760}
FILE_RE = re.compile(r"^stabilizer(\d+)-(.+)\.txt$")


def class_orbits(n):
    """orbit (as orbit-min graph id) that the library's class id k stands for, via cls(k).get_graph()"""
    L = libif.lib()
    cls = {2: L.lc.LCClass2, 3: L.lc.LCClass3, 4: L.lc.LCClass4, 5: L.lc.LCClass5, 6: L.lc.LCClass6}[n]
    tab = lc.orbit_table(n)
    out = []
    for k in range(cls.count()):
        try:
            g = cls(k).get_graph()
            a = np.asarray(g.adjacency_matrix)
            if a.shape != (n, n):
                raise ValueError("wrong size")
            edges = [(i, j) for i in range(n) for j in range(i + 1, n) if a[i, j] & 1]
            out.append(tab[lc.gid_from_edges(n, edges)])
        except Exception:  # noqa: BLE001  (C06 reports a broken representative; here the pairing falls back to the classifier check)
            out.append(None)
    return out


def check_line(n, name, k, line, orbits, rep, fname):
    """all per-line predicates; returns list of (kind, msg)"""
    L = libif.lib()
    out = []
    case = {"file": fname, "line_index": k, "line": line}

    def bad(kind, msg, **more):
        out.append(kind)
        rep.fail(f"{fname}:{k}:{kind}", case, f"{fname} line {k}: {msg}", **more)

    try:
        gid, c_cost, c_depth, ops = tables.parse_stabilizer_line(n, line)
    except tables.TableError as e:
        bad("vocabulary", str(e))
        return out, None
    # differential: what the library's own parser builds
    try:
        comps = line.split(":")
        qc = L.lookup.parse_circuit(n, comps[3])
        lib_ops = [(o[0], tuple(o[1])) for o in libif.ops_of(qc)]
    except Exception as e:  # noqa: BLE001
        bad("libparse", f"library parser raised {type(e).__name__}: {e}")
        lib_ops = None
    if lib_ops is not None and lib_ops != ops:
        bad("parser-diff", f"library parser yields {lib_ops}, documented grammar yields {ops}")
    # what the library's own record of this line says (the object every consumer of the table reads)
    try:
        info = L.lookup.StabilizerCircuitInfo(n, line)
        rec = (int(info.graph_id), int(info.cost), int(info.depth), int(info.num_qubits))
        if rec != (gid, c_cost, c_depth, n):
            bad("record-diff", f"StabilizerCircuitInfo reports (graph, cost, depth, n) = {rec}, the line says {(gid, c_cost, c_depth, n)}", observed=list(rec), expected=[gid, c_cost, c_depth, n])
        if (n, name) in coupling.EDGES:
            got = L.lookup.stabilizer_circuit_lookup(n, name, k)
            rec2 = (int(got.graph_id), int(got.cost), int(got.depth), str(got.circuit_string))
            if rec2 != (gid, c_cost, c_depth, comps[3]):
                bad("lookup-diff", f"stabilizer_circuit_lookup({n}, {name!r}, {k}) returns {rec2[:3]}, line {k} of the file says {(gid, c_cost, c_depth)}")
    except Exception as e:  # noqa: BLE001
        bad("record-raised", f"StabilizerCircuitInfo / lookup raised {type(e).__name__}: {e}")
    run_ops = lib_ops if lib_ops is not None else ops
    # state: graph state of the decoded graph, up to signs
    psi = dense.run([(o[0], o[1], ()) for o in run_ops], n)
    for g in lc.graph_state_gens(n, gid):
        e = dense.expectation(psi, g, n)
        if abs(abs(e) - 1) > 1e-9:
            bad("state", f"circuit does not prepare graph state of graph {gid} (<{pauli.to_str(g, n)}> = {e:.3f})")
            break
    # class
    tab = lc.orbit_table(n)
    if k < len(orbits) and orbits[k] is not None and tab[gid] != orbits[k]:
        bad("class", f"graph {gid} lies in LC orbit {tab[gid]} but class id {k} stands for orbit {orbits[k]}")
    try:
        lid = L.lc.determine_lc_class(L.Stabilizer(L.Graph.decompress(n, gid))).id()
        if lid != k:
            bad("class-lib", f"library classifies graph {gid} as class {lid}, entry is filed under {k}")
    except Exception as e:  # noqa: BLE001
        bad("class-lib", f"classifier raised {type(e).__name__} on graph {gid}")
    # metadata
    real_cost, real_depth = cost.twoq_count(run_ops), cost.twoq_depth(run_ops)
    if real_cost != c_cost:
        bad("cost", f"cost column {c_cost} but circuit has {real_cost} two-qubit gates", observed=c_cost, expected=real_cost)
    if real_depth != c_depth:
        bad("depth", f"depth column {c_depth} but two-qubit depth is {real_depth}", observed=c_depth, expected=real_depth)
    # connectivity
    if (n, name) in coupling.EDGES:
        es = coupling.edge_set(n, name)
        for gname, qs in cost.twoq_ops(run_ops):
            if len(qs) != 2 or tuple(sorted(qs)) not in es:
                bad("coupling", f"{gname}{qs} is not on an edge of {n}-{name}")
                break
    return out, real_cost


def shard(arg):
    fname, n, name, start, stop = arg
    L = libif.lib()
    rep = fw.Report()
    lines = tables.read_lines(os.path.join(L.datadir, fname))
    orbits = class_orbits(n)
    for k in range(start, min(stop, len(lines))):
        kinds, real_cost = check_line(n, name, k, lines[k], orbits, rep, fname)
        nt = (fname, k) if (real_cost or 0) >= 1 else None
        sample = None
        if k in (1, len(lines) - 1) and start <= k:
            sample = {"file": fname, "line_index": k, "line": lines[k]}
        rep.case(nt, sample)
        rep.count("lines_per_file", fname)
        if kinds:
            rep.count("failure_kinds", ",".join(kinds))
    return rep


def file_level(rep):
    """checks that are per file, not per line"""
    L = libif.lib()
    files = sorted(os.path.basename(p) for p in glob.glob(os.path.join(L.datadir, "stabilizer*.txt")))
    seen = {}
    for f in files:
        m = FILE_RE.match(f)
        if not m:
            rep.fail(f"{f}:name", {"file": f}, f"{f}: file name does not follow stabilizer<n>-<name>.txt")
            continue
        n, name = int(m.group(1)), m.group(2)
        seen[(n, name)] = f
        if n not in KCOUNT:
            rep.fail(f"{f}:n", {"file": f}, f"{f}: unsupported qubit number")
            continue
        lines = tables.read_lines(os.path.join(L.datadir, f))
        if len(lines) != KCOUNT[n]:
            rep.fail(f"{f}:linecount", {"file": f, "kind": "linecount"},
                     f"{f}: {len(lines)} entries, expected one per class id = {KCOUNT[n]}",
                     observed=len(lines), expected=KCOUNT[n])
    for cfg in coupling.CONFIGS:
        if cfg not in seen:
            rep.fail(f"stabilizer{cfg[0]}-{cfg[1]}.txt:missing", {"file": f"stabilizer{cfg[0]}-{cfg[1]}.txt", "kind": "missing"},
                     f"no table for advertised configuration {cfg}")
    stray = sorted(f for c, f in seen.items() if c not in coupling.EDGES)
    rep.extra["stray_table_files"] = stray
    rep.extra["table_files"] = len(files)
    # what importlib.resources (the library's access path) sees
    try:
        import importlib.resources as ir
        from htstabilizer import data as pkgdata
        listed = sorted(p.name for p in ir.files(pkgdata).iterdir() if p.name.startswith("stabilizer"))
        rep.extra["resource_listing_equals_directory"] = (listed == files)
    except Exception:  # noqa: BLE001
        rep.extra["resource_listing_equals_directory"] = None
    return seen


def run(ctx):
    rep = fw.Report()
    seen = file_level(rep)
    L = libif.lib()
    args = []
    for (n, name), f in sorted(seen.items()):
        if n not in KCOUNT:
            continue
        nl = len(tables.read_lines(os.path.join(L.datadir, f)))
        step = 100
        for s in range(0, max(nl, 1), step):
            args.append((f, n, name, s, s + step))
    rep.merge(fw.run_shards(ctx, "props.c17", "shard", args))
    rep.extra["exhaustive"] = True
    rep.extra["entries_on_disk"] = rep.evaluations
    return rep


def replay(case):
    rep = fw.Report()
    L = libif.lib()
    f = case["file"]
    m = FILE_RE.match(f)
    if case.get("kind") in ("linecount", "missing") or "line_index" not in case:
        file_level(rep)
        return [x for x in rep.failures if x["case"].get("file") == f]
    n, name = int(m.group(1)), m.group(2)
    path = os.path.join(L.datadir, f)
    lines = tables.read_lines(path) if os.path.exists(path) else []
    k = case["line_index"]
    line = lines[k] if k < len(lines) else case["line"]
    check_line(n, name, k, line, class_orbits(n), rep, f)
    return rep.failures
