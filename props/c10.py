"""C10 -- full-state tomography reconstructs every state exactly from exact statistics."""
from fractions import Fraction

import numpy as np

import framework as fw
import libif
from oracle import dense, pauli, coupling
from gen import tomo

RULE = ("Hypothesis: configuration x state. Pure states are prepared by real preparation circuits (Clifford+T sequences, "
        "rx/ry/rz rotation circuits with continuous angles, GHZ-like and W-like entangled templates on random qubit orders) and "
        "the returned tomography circuits are dense-simulated as a whole; mixed states (2..4 components, rational weights) are "
        "injected: circuits are requested for an empty preparation circuit and only their readout part is simulated on each "
        "component. Exact outcome distributions are handed to FullStateTomographyFitter through a duck-typed result object "
        "(zero-probability outcomes present or absent at random). A case is one state on one configuration (2^n+1 circuits). "
        "Non-trivial = >= 5 Paulis of weight >= 2 with |expectation| > 1e-3 and the state not invariant under reversal of the "
        "qubit order; distinct by (n, connectivity, state description). Oracle: Tr(rho P) for all 4^n Paulis by dense algebra "
        "(|delta| < 1e-9), exactly 4^n phase-free keys, density matrix in little-endian order. Additionally one state per n is "
        "tomographed on all configurations of n one after the other in one process (both orders) to expose state carried between calls.")
ASSUMPTIONS = ["results: FakeResult or genuine qiskit.result.Result (Result.from_dict with named headers) alternating", "dense simulator; little-endian conventions cross-checked in the self-test",
               "mixed states are injected behind an empty preparation circuit (the fitter never inspects the preparation part)",
               "a continuum of states is sampled; the fitter is linear in the statistics, the operator-space rank of the sample is reported"]
BUDGET = {"quick": 400, "thorough": 3000}
TOL = 1e-9


def components_of(case):
    n = case["n"]
    comps = []
    for c in case["components"]:
        w = float(Fraction(c["w"][0], c["w"][1]))
        comps.append((w, tomo.state_tensor(n, c["ops"])))
    return comps


def check_tomography(case, want_vec=False):
    L = libif.lib()
    n, name = case["n"], case["connectivity"]
    comps = components_of(case)
    pure = len(comps) == 1
    rng = fw.rng_for("c10z", case.get("zero_seed", 0))
    fails = []
    label = f"{n}-{name} {'pure' if pure else 'mixed'} state"
    try:
        if pure:
            prep = libif.build_circuit(n, tomo.ops_tuple(case["components"][0]["ops"]))
        else:
            prep = L.QuantumCircuit(n)
        circs = L.tomo.full_state_tomography_circuits(prep, name)
        counts = []
        for qc in circs:
            mops = tomo.measurement_ops(qc)
            if pure:
                pw = [(1.0, dense.run(mops, n))]
            else:
                pw = [(w, dense.run(mops, n, psi=psi)) for (w, psi) in comps]
            counts.append(tomo.rescale_counts(tomo.exact_counts(pw, n, rng), case.get("zero_seed", 0) // 3 + len(counts)))
        fitter = L.tomo.FullStateTomographyFitter(tomo.make_result(counts, circs, case.get("zero_seed", 0)), circs)
        ev_raw = fitter.expectation_values()
        dm = np.asarray(fitter.density_matrix())
    except dense.UnknownGate as e:
        raise fw.HarnessError(f"uninterpretable gate {e}")
    except Exception as e:  # noqa: BLE001
        return [(f"{n}/{name}/raised:{type(e).__name__}", f"{label}: tomography pipeline raised {type(e).__name__}({e})", {})], None
    if len(circs) != (1 << n) + 1:
        fails.append((f"{n}/{name}/circuit-count", f"{label}: {len(circs)} circuits, expected {(1 << n) + 1}", {}))
    ev, problems = tomo.convert_expectations(ev_raw)
    for p in problems[:1]:
        fails.append((f"{n}/{name}/keys", f"{label}: {p}", {}))
    rho = tomo.rho_of_mixture(comps, list(range(n)))
    want = tomo.pauli_vector(rho, n)
    if len(ev) != 4 ** n or set(ev) != set(want):
        fails.append((f"{n}/{name}/keys", f"{label}: fitter reports {len(ev)} Pauli operators, expected all {4 ** n}", {"observed": len(ev), "expected": 4 ** n}))
    worst = None
    for k, v in want.items():
        if k in ev and abs(ev[k] - v) > TOL:
            if worst is None or abs(ev[k] - v) > worst[2]:
                worst = (k, "sign" if abs(ev[k] + v) < TOL else "value", abs(ev[k] - v), ev[k], v)
    if worst:
        k, kind, _, got, w = worst
        fails.append((f"{n}/{name}/expectation-{kind}", f"{label}: <{pauli.to_str((0,) + k, n, sign=False)}> reported as {got:+.6f}, true value {w:+.6f}",
                      {"observed": got, "expected": w}))
    want_dm = dense.rho_matrix_le(rho, n)
    if dm.shape != want_dm.shape or np.max(np.abs(dm - want_dm)) > 1e-8:
        fails.append((f"{n}/{name}/density", f"{label}: density_matrix() differs from rho (max deviation {np.max(np.abs(dm - want_dm)) if dm.shape == want_dm.shape else 'shape'})", {}))
    return fails, want


def interesting(want, n):
    big = sum(1 for (x, z), v in want.items() if bin(x | z).count("1") >= 2 and abs(v) > 1e-3)

    def rev(m):
        return int(format(m, f"0{n}b")[::-1], 2)
    asym = any(abs(v - want[(rev(x), rev(z))]) > 1e-3 for (x, z), v in want.items())
    return big >= 5 and asym


def strategy(cfg):
    from hypothesis import strategies as st
    from gen import hyp

    @st.composite
    def cases(draw):
        n, name = cfg
        ncomp = draw(st.sampled_from([1, 1, 1, 2, 3, 4]))
        comps = []
        weights = [draw(st.integers(1, 9)) for _ in range(ncomp)]
        tot = sum(weights)
        for k in range(ncomp):
            comps.append({"w": [weights[k], tot], "ops": draw(tomo.state_ops_strategy(n, max_len=10))})
        return {"n": n, "connectivity": name, "components": comps, "zero_seed": draw(st.integers(0, 10 ** 6))}
    return cases()


_MEMO = {}


def check_h(case):
    res = check_tomography(case)
    _MEMO.clear()
    _MEMO[repr(case)] = res
    return res[0]


def classify_h(case):
    fails, want = _MEMO.get(repr(case)) or check_tomography(case)
    n = case["n"]
    nt = None
    if want is not None and interesting(want, n):
        nt = (n, case["connectivity"], repr(case["components"]))
    kinds = "pure" if len(case["components"]) == 1 else f"mixed{len(case['components'])}"
    return nt, {"config": f"{n}-{case['connectivity']}", "state_kind": kinds}


def shard(arg):
    seed, n_examples, cfg, deadline = arg
    rep = fw.Report()
    fw.hyp_search(strategy(tuple(cfg)), check_h, rep, seed, n_examples, classify=classify_h, deadline_ts=deadline)
    return rep


def shard_rank(arg):
    """operator-space rank of a sample of states per configuration (n <= nmax): exactness on a spanning set + linearity"""
    n, name, count, seed = arg
    rep = fw.Report()
    import hypothesis
    from hypothesis import given, settings, HealthCheck, Phase
    vec_rows = []
    dig = [0]

    @hypothesis.seed(seed)
    @settings(max_examples=count, database=None, deadline=None, phases=[Phase.generate], suppress_health_check=list(HealthCheck))
    @given(tomo.state_ops_strategy(n, max_len=12))
    def t(ops):
        case = {"n": n, "connectivity": name, "components": [{"w": [1, 1], "ops": ops}], "zero_seed": len(vec_rows)}
        dig[0] = fw.h64(dig[0], repr(case))
        fails, want = check_tomography(case)
        nt = (n, name, repr(ops)) if (want is not None and interesting(want, n)) else None
        rep.case(nt, None)
        rep.count("config", f"{n}-{name}")
        rep.count("state_kind", "pure(rank-sample)")
        for key, msg, extra in fails:
            rep.fail(key, case, msg, **extra)
        if want is not None:
            vec_rows.append([want[k] for k in sorted(want)])
    t()
    rank = int(np.linalg.matrix_rank(np.array(vec_rows), tol=1e-8)) if vec_rows else 0
    rep.extra["operator_space_rank"] = {f"{n}-{name}": {"rank": rank, "of": 4 ** n, "states": len(vec_rows)}}
    rep.extra["generation_digests"] = {f"rank-{n}-{name}": dig[0]}
    return rep


def shard_sequence(arg):
    """the same state tomographed on every configuration of n one after the other IN ONE PROCESS, in both orders: a fitter or
    circuit factory that carries state from one configuration to the next (caches keyed too coarsely) shows up here"""
    n, count, seed = arg
    rep = fw.Report()
    import math
    names = [name for (m, name) in coupling.CONFIGS if m == n]
    for i in range(count):
        rng = fw.rng_for("c10seq", seed, n, i)
        ops = []
        for q in range(n):
            ops.append(["ry", [q], [rng.uniform(0, 2 * math.pi)]])
            ops.append(["rz", [q], [rng.uniform(0, 2 * math.pi)]])
        for q in range(n - 1):
            ops.append(["cx", [q, q + 1]])
            ops.append(["ry", [q + 1], [rng.uniform(0, 2 * math.pi)]])
        order = list(names)
        rng.shuffle(order)
        if n >= 5 and count <= 1:
            order = order[:3]      # quick tier: three configurations in both orders (a 6-qubit tomography costs seconds)
        seq = order + order[::-1]
        for pos, name in enumerate(seq):
            case = {"n": n, "connectivity": name, "components": [{"w": [1, 1], "ops": ops}], "zero_seed": i}
            fails, want = check_tomography(case)
            nt = (n, name, repr(ops), pos) if (want is not None and interesting(want, n)) else None
            rep.case(nt, None)
            rep.count("config", f"{n}-{name}")
            rep.count("state_kind", "pure(sequence over configurations)")
            for key, msg, extra in fails:
                hist = [{"n": n, "connectivity": nm, "components": case["components"], "zero_seed": i} for nm in seq[: pos + 1]]
                rep.fail(key + ":after-other-configurations", {"sequence": hist}, msg + f" [after tomography on {seq[:pos]} in the same process]", **extra)
    return rep


def generic_ops(n, rng):
    import math
    ops = []
    for layer in range(2):
        for q in range(n):
            ops.append(["ry", [q], [rng.uniform(0.2, math.pi - 0.2)]])
            ops.append(["rz", [q], [rng.uniform(0.2, 2 * math.pi - 0.2)]])
        order = list(range(n))
        rng.shuffle(order)
        for a, b in zip(order, order[1:]):
            ops.append(["cx", [a, b]])
            ops.append(["rx", [b], [rng.uniform(0.2, math.pi - 0.2)]])
    return ops


def shard_generic(arg):
    """generic (no vanishing expectation values by symmetry) pure states: at least one per configuration in every run, so that a
    sign or label slip confined to a few of the 4^n operators of one configuration cannot hide behind zeros"""
    n, name, count, seed = arg
    rep = fw.Report()
    for i in range(count):
        rng = fw.rng_for("c10gen", seed, n, name, i)
        ops = generic_ops(n, rng)
        case = {"n": n, "connectivity": name, "components": [{"w": [1, 1], "ops": ops}], "zero_seed": i}
        fails, want = check_tomography(case)
        nz = sum(1 for v in want.values() if abs(v) > 1e-6) if want else 0
        rep.case((n, name, repr(ops)) if (want is not None and interesting(want, n)) else None,
                 {"n": n, "connectivity": name, "state": "generic", "nonzero_expectations": nz, "of": 4 ** n} if i == 0 and n == 6 else None)
        rep.count("config", f"{n}-{name}")
        rep.count("state_kind", "pure(generic)")
        rep.count("generic_state_nonzero_fraction", f"{round(nz / 4 ** n, 1)}")
        for key, msg, extra in fails:
            rep.fail(key, case, msg, **extra)
    return rep


def shard_mub_states(arg):
    """tomography of the library's own MUB basis states: the preparation circuit is the inverse of readout circuit i (followed by
    one extra single-qubit gate), so preparation and readout meet in gates that undo each other -- the natural calibration
    experiment, and the input on which any clean-up at the seam between the two parts acts"""
    n, name, indices, seed = arg
    L = libif.lib()
    rep = fw.Report()
    try:
        circs = L.mub.get_mub_circuits(n, name)
    except Exception:  # noqa: BLE001  (C09's business)
        return rep
    for i in indices:
        if i >= len(circs):
            continue
        rng = fw.rng_for("c10mub", seed, n, name, i)
        ops = libif.ops_of(circs[i])
        try:
            inv = [[o[0], list(o[1])] for o in dense.inverse_ops(ops)]
        except dense.UnknownGate:
            continue
        two = [o for o in ops if len(o[1]) == 2]
        extra_q = two[0][1][1] if (two and rng.random() < 0.7) else rng.randrange(n)
        prep = inv + [[rng.choice(["h", "s", "t", "h"]), [extra_q]]]
        case = {"n": n, "connectivity": name, "components": [{"w": [1, 1], "ops": prep}], "zero_seed": i}
        fails, want = check_tomography(case)
        rep.case((n, name, "mub-state", i) if (want is not None and interesting(want, n)) else None,
                 dict(case, state=f"inverse of MUB circuit {i} + one gate") if (i == indices[0] and n == 3) else None)
        rep.count("config", f"{n}-{name}")
        rep.count("state_kind", "pure(MUB basis state + one gate)")
        for key, msg, extra in fails:
            rep.fail(key, case, msg + f" [preparation = inverse of MUB circuit {i} + one gate]", **extra)
    return rep


def shard_any(arg):
    if arg[0] == "mub":
        return shard_mub_states(arg[1:])
    if arg[0] == "generic":
        return shard_generic(arg[1:])
    if arg[0] == "rank":
        return shard_rank(arg[1:])
    if arg[0] == "sequence":
        return shard_sequence(arg[1:])
    return shard(arg[1:])


def run(ctx):
    q = ctx.quick
    args = []
    # one Hypothesis search per configuration; small n: many states; n = 5, 6: few (33 / 65 circuits x 4^n labels each)
    per = {2: 20, 3: 30, 4: 20, 5: 2, 6: 1} if q else {2: 300, 3: 500, 4: 400, 5: 60, 6: 30}
    for ci, (n, name) in enumerate(coupling.CONFIGS):
        parts = 1 if q else (4 if n <= 4 else 6)
        for part in range(parts):
            args.append(("hyp", ctx.seed * 1000 + ci * 10 + part, max(1, per[n] // parts), [n, name], ctx.deadline))
    for (n, name) in coupling.CONFIGS:
        if n <= (3 if q else 4):
            args.append(("rank", n, name, {2: 24, 3: 160, 4: 600}[n], ctx.seed * 1000 + 500 + n))
    for (n, name) in coupling.CONFIGS:
        args.append(("generic", n, name, (2 if n <= 4 else 1) * (1 if q else 12), ctx.seed))
    for (n, name) in coupling.CONFIGS:
        total = (1 << n) + 1
        if q:
            rng = fw.rng_for("c10mubsel", ctx.seed, n, name)
            idx = list(range(total)) if n <= 4 else sorted(rng.sample(range(total), 6 if n == 5 else 3))
        else:
            idx = list(range(total))
        for chunk in fw.split(idx, 1 if n <= 4 else (2 if q else 11)):
            args.append(("mub", n, name, chunk, ctx.seed))
    for n in (2, 3, 4, 5, 6):
        args.append(("sequence", n, {2: 3, 3: 3, 4: 2, 5: 1, 6: 1}[n] * (1 if q else 10), ctx.seed))
    args.sort(key=lambda a: 0 if (a[0] == "sequence" and a[1] >= 5) else (1 if (a[0] == "generic" and a[1] == 6) else 2))
    rep = fw.run_shards(ctx, "props.c10", "shard_any", args)
    rep.extra["exhaustive"] = False
    return rep


def replay(case):
    if "sequence" in case:
        out = []
        for c in case["sequence"]:
            out = [{"key": k, "msg": m, "case": c} for k, m, e in check_tomography(c)[0]]   # the verdict is that of the last step
        return out
    return [{"key": k, "msg": m, "case": case} for k, m, e in check_tomography(case)[0]]
