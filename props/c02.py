"""C02 -- every delivered circuit uses two-qubit gates only on coupled qubit pairs."""
import time

import numpy as np

import framework as fw
import libif
from oracle import pauli, lc, cost, coupling
from gen import members, sweep

RULE = ("circuits of every kind the API hands out are generated and their instruction lists inspected: (a) preparation, "
        "readout and compressed circuits for >= 1 constructed member of every (n, connectivity, LC class) [3 members for n<=5 "
        "in quick; 12 / 8 in thorough] and for the graph state every table entry itself stores; compressed circuits also for very "
        "cheap inputs that ignore the connectivity (Bell pair on a coupled pair moved by a SWAP between arbitrary qubits -- all of "
        "them -- 40 drawn short circuits with SWAPs anywhere, and the circuits of gen/sparsecirc that never touch some qubits, per configuration); (b) all 744 MUB circuits; (c) Hypothesis: tomography and stabilizer-measurement "
        "circuits on ordered m-subsets of N <= 8 qubits (only the instructions after the caller's preparation prefix, "
        "mapped back through the qubit list); (d) exhaustively: get_connectivity_graph for the 20 configurations vs. the "
        "transcribed edge table. A case is one returned circuit; non-trivial = contains >= 1 two-qubit gate and the "
        "connectivity is not all-to-all; distinct by (kind, n, connectivity, instruction list).")
ASSUMPTIONS = ["edge table transcribed from README figure / docstrings / property text", "qiskit reports the qubit indices of the appended instructions"]
BUDGET = {"quick": 400, "thorough": 3000}


def coupling_violation(ops, m, name, qubit_list=None):
    """first instruction that is not on a coupled pair (after mapping through qubit_list), or None"""
    es = coupling.edge_set(m, name)
    for op in ops:
        gname, qs = op[0], tuple(op[1])
        if gname in cost.SKIP or len(qs) < 2:
            continue
        if len(qs) != 2:
            return f"{gname} on {len(qs)} qubits {qs}"
        if qubit_list is not None:
            if qs[0] not in qubit_list or qs[1] not in qubit_list:
                return f"{gname}{qs} touches a qubit outside the measured list {list(qubit_list)}"
            a, b = qubit_list.index(qs[0]), qubit_list.index(qs[1])
        else:
            a, b = qs
        if tuple(sorted((a, b))) not in es:
            where = f" (= positions {(a, b)} of the list {list(qubit_list)})" if qubit_list is not None else ""
            return f"{gname}{qs}{where} is not an edge of {m}-{name}"
    return None


def has_twoq(ops):
    return any(len(o[1]) >= 2 and o[0] not in cost.SKIP for o in ops)


def record(rep, kind, n, name, ops, case, viol, sample=False):
    pops = tuple((o[0], tuple(o[1])) for o in ops)
    nt = (kind, n, name, pops) if (has_twoq(ops) and name != "all") else None
    rep.case(nt, dict(case, kind=kind, circuit=libif.plain_ops(pops)) if sample else None)
    rep.count("circuits_per_kind", kind)
    rep.count("circuits_per_config", f"{n}-{name}")
    if viol:
        rep.fail(f"{n}/{name}/{kind}", dict(case, kind=kind), f"{n}-{name} {kind} circuit: {viol}")


def check_member_case(case, rep=None):
    """preparation / readout / compressed circuit for one stabilizer; returns failures [(key,msg,extra)]"""
    L = libif.lib()
    n, name = case["n"], case["connectivity"]
    gens = [pauli.parse(s)[:3] for s in case["strings"]]
    out = []
    calls = [("preparation", lambda: L.sc.get_preparation_circuit(sweep.make_stabilizer(n, gens, "strings+sign"), name)),
             ("readout", lambda: L.sc.get_readout_circuit(sweep.make_stabilizer(n, gens, "matrices+phases"), name))]
    if case.get("circuit"):
        ops_in = [(o[0], tuple(o[1])) for o in case["circuit"]]
        calls.append(("compressed", lambda: L.sc.compress_preparation_circuit(libif.build_circuit(n, ops_in), name)))
    for kind, call in calls:
        try:
            qc = call()
        except Exception:  # noqa: BLE001
            if rep is not None:
                rep.count("raised(other properties)", kind)
            continue
        ops = libif.ops_of(qc)
        v = coupling_violation(ops, n, name)
        if rep is not None:
            record(rep, kind, n, name, ops, {k: case[k] for k in ("n", "connectivity", "strings")}, v, sample=case.get("_sample", False) and kind == "readout")
        if v:
            out.append((f"{n}/{name}/{kind}", f"{n}-{name} {kind} circuit: {v}", {}))
    return out


def shard_members(arg):
    n, orbits, k, seed, deadline = arg
    rep = fw.Report()
    i = 0
    for o in orbits:
        for j in range(k):
            if deadline and time.time() > deadline:
                rep.truncated = True
                return rep
            rng = fw.rng_for("c02", seed, n, o, j)
            gens, info = members.member(n, o, rng)
            circ = [["h", [q]] for q in range(n)] + [["cz", list(e)] for e in lc.edges_from_gid(n, info["graph"])] + info["layer"]
            # make the input circuit disrespect the connectivity on purpose (routing must not leak into the output)
            if n >= 3:
                a, b = rng.sample(range(n), 2)
                circ = circ + [["swap", [a, b]], ["swap", [a, b]]]
            for name in sweep.configs(n):
                i += 1
                case = {"n": n, "connectivity": name, "strings": sweep.strings(gens, n), "circuit": circ, "_sample": i % 900 == 1}
                check_member_case(case, rep)
    return rep


def shard_table_graphs(arg):
    """the graph state each table entry itself stores (identity frame), for every configuration and class"""
    n, name, ids, seed = arg
    from gen import tableinfo
    rep = fw.Report()
    ent = tableinfo.parsed(n, name)
    for k in ids:
        if k >= len(ent) or ent[k] is None:
            continue
        gid = ent[k][0]
        gens = lc.graph_state_gens(n, gid)
        circ = [["h", [q]] for q in range(n)] + [["cz", list(e)] for e in lc.edges_from_gid(n, gid)]
        check_member_case({"n": n, "connectivity": name, "strings": sweep.strings(gens, n), "circuit": circ if k % 3 == 0 else None, "_sample": False}, rep)
    return rep


def shard_named(arg):
    n, part, parts, seed = arg
    from gen import named
    rep = fw.Report()
    for i, (label, gid, w, gens, circ) in enumerate(named.named_subjects(n)):
        if i % parts != part:
            continue
        for name in sweep.configs(n):
            check_member_case({"n": n, "connectivity": name, "strings": sweep.strings(gens, n), "circuit": circ if i % 2 == 0 else None, "_sample": False}, rep)
    return rep


def shard_static(arg):
    """MUB circuits and coupling graphs (exhaustive)"""
    rep = fw.Report()
    L = libif.lib()
    try:
        av = sorted((int(n), str(c)) for n, c in L.conn.get_available_connectivities())
        if av != sorted(coupling.CONFIGS):
            rep.fail("available-list", {"kind": "available"}, f"get_available_connectivities() = {av}, documented: {sorted(coupling.CONFIGS)}")
    except Exception as e:  # noqa: BLE001
        rep.fail("available-list", {"kind": "available"}, f"get_available_connectivities raised {type(e).__name__}")
    for (n, name) in coupling.CONFIGS:
        case = {"n": n, "connectivity": name, "kind": "graph"}
        try:
            g = L.conn.get_connectivity_graph(n, name)
            a = np.asarray(g.adjacency_matrix)
            edges = sorted((i, j) for i in range(n) for j in range(i + 1, n) if a[i, j] & 1)
            ok = (a.shape == (n, n) and edges == sorted(coupling.edge_set(n, name)) and sorted(map(tuple, g.get_edges())) == edges
                  and np.array_equal(a, a.T) and not np.any(np.diag(a)))
            if not ok:
                rep.fail(f"{n}/{name}/graph", case, f"get_connectivity_graph({n}, {name!r}) has edges {edges}, documented coupling graph is {sorted(coupling.edge_set(n, name))}")
        except Exception as e:  # noqa: BLE001
            rep.fail(f"{n}/{name}/graph", case, f"get_connectivity_graph({n}, {name!r}) raised {type(e).__name__}: {e}")
        rep.case(("graph", n, name) if name != "all" else None, {"kind": "graph", "n": n, "connectivity": name, "edges": sorted(coupling.edge_set(n, name))} if n == 5 else None)
        try:
            circs = L.mub.get_mub_circuits(n, name)
        except Exception as e:  # noqa: BLE001
            rep.fail(f"{n}/{name}/mub", case, f"get_mub_circuits raised {type(e).__name__}")
            continue
        for i, qc in enumerate(circs):
            ops = libif.ops_of(qc)
            record(rep, "mub", n, name, ops, {"n": n, "connectivity": name, "mub_index": i}, coupling_violation(ops, n, name))
    return rep


# ---- measurement circuits on qubit subsets (Hypothesis) -------------------------------------

def check_measure_case(case):
    L = libif.lib()
    N, m, name, qlist = case["N"], case["m"], case["connectivity"], case["qubits"]
    prep_ops = [(o[0], tuple(o[1])) for o in case["prep"]]
    out = []
    prep = libif.build_circuit(N, prep_ops)
    P = len(prep.data)
    ql = None if case.get("all_qubits") else list(qlist)
    mapping = list(range(N)) if ql is None else ql
    jobs = []
    try:
        jobs.append(("tomography", L.tomo.full_state_tomography_circuits(prep, name, ql)))
    except Exception as e:  # noqa: BLE001
        jobs.append(("tomography", e))
    if case.get("strings"):
        gens = [pauli.parse(s)[:3] for s in case["strings"]]
        try:
            jobs.append(("stabilizer-measurement", [L.tomo.stabilizer_measurement_circuit(prep, sweep.make_stabilizer(m, gens, "strings+sign"), name, ql)]))
        except Exception as e:  # noqa: BLE001
            jobs.append(("stabilizer-measurement", e))
    for kind, res in jobs:
        if isinstance(res, Exception):
            continue   # supported requests that raise are C08's business
        for ci, qc in enumerate(res):
            ops = libif.ops_of(qc)
            head = [(o[0], tuple(o[1])) for o in ops[:P]]
            if head != [(o[0], tuple(o[1])) for o in libif.ops_of(prep)]:
                out.append((f"{m}/{name}/{kind}:prefix", f"{kind} circuit {ci} does not start with the caller's preparation circuit", {}))
                continue
            v = coupling_violation(ops[P:], m, name, mapping)
            if v:
                out.append((f"{m}/{name}/{kind}", f"{m}-{name} {kind} circuit {ci} on qubits {mapping} of {N}: {v}", {}))
    return out


def measure_strategy():
    from hypothesis import strategies as st
    from gen import hyp

    @st.composite
    def cases(draw):
        all_q = draw(st.integers(0, 5)) == 0
        if all_q:
            m, name = draw(hyp.config_strategy())
            N = m
            qubits = list(range(N))
        else:
            N = draw(st.sampled_from([3, 4, 5, 6, 7, 8]))
            m = draw(st.sampled_from(list(range(2, min(6, N) + 1))))
            name = draw(st.sampled_from(sweep.configs(m)))
            qubits = list(draw(st.permutations(list(range(N)))))[:m]
        gens, orbit, _ = draw(hyp.member_gens(m))
        prep = draw(hyp.clifford_ops(N, max_len=8, allow_macros=False))
        return {"N": N, "m": m, "connectivity": name, "qubits": qubits, "all_qubits": all_q, "prep": prep,
                "strings": sweep.strings(gens, m)}
    return cases()


def classify_measure(case):
    q = case["qubits"]
    shape = "all" if case["all_qubits"] else ("sorted" if q == sorted(q) else ("reversed" if q == sorted(q, reverse=True) else "generic"))
    nt = (case["N"], case["m"], case["connectivity"], tuple(q), tuple(case["strings"])) if case["connectivity"] != "all" else None
    return nt, {"subset_shape": shape, "measure_config": f"{case['m']}-{case['connectivity']}", "register_size": case["N"]}


def shard_measure(arg):
    seed, n_examples, deadline = arg
    rep = fw.Report()
    fw.hyp_search(measure_strategy(), check_measure_case, rep, seed, n_examples, classify=classify_measure, deadline_ts=deadline)
    return rep


def shard_cheap_inputs(arg):
    """compressed circuits for very cheap inputs that themselves ignore the connectivity: a Bell pair made on a coupled pair and
    moved by a SWAP between arbitrary qubits, plus rng-drawn short circuits with CX/CZ on coupled pairs and SWAPs anywhere"""
    n, name, seed = arg
    rep = fw.Report()
    edges = sorted(coupling.edge_set(n, name))
    pairs = [(i, j) for i in range(n) for j in range(i + 1, n)]
    inputs = []
    for (a0, b0) in edges:
        for (a, b) in ((a0, b0), (b0, a0)):
            for s1 in pairs:
                if set(s1) & {a, b}:
                    inputs.append([["h", [a]], ["cx", [a, b]], ["swap", list(s1)]])
    rng = fw.rng_for("c02cheap", seed, n, name)
    for _ in range(40):
        ops = [["h", [q]] for q in range(n) if rng.random() < 0.5]
        for _ in range(rng.randrange(1, 4)):
            if rng.random() < 0.5:
                ops.append(["swap", list(rng.sample(range(n), 2))])
            else:
                a, b = rng.choice(edges)
                ops.append([rng.choice(["cx", "cz"]), [a, b] if rng.random() < 0.5 else [b, a]])
        inputs.append(ops)
    # circuits that leave part of the register untouched (Bell pairs, GHZ, lines, drawn sub-circuits on a subset of the qubits)
    from gen import sparsecirc
    inputs += [ops for _, ops in sparsecirc.sparse_circuits(n, seed, "c02idle", True)]
    L = libif.lib()
    for i, ops_in in enumerate(inputs):
        case = {"n": n, "connectivity": name, "kind": "compressed", "circuit": ops_in, "strings": []}
        try:
            qc = L.sc.compress_preparation_circuit(libif.build_circuit(n, [(o[0], tuple(o[1])) for o in ops_in]), name)
        except Exception:  # noqa: BLE001
            rep.count("raised(other properties)", "compressed")
            continue
        ops = libif.ops_of(qc)
        record(rep, "compressed(cheap input with swaps)", n, name, ops, case, coupling_violation(ops, n, name), sample=(i == 3 and n == 4))
    return rep


def shard(arg):
    kind = arg[0]
    if kind == "cheap":
        return shard_cheap_inputs(arg[1:])
    if kind == "members":
        return shard_members(arg[1:])
    if kind == "static":
        return shard_static(arg[1:])
    if kind == "table-graphs":
        return shard_table_graphs(arg[1:])
    if kind == "named":
        return shard_named(arg[1:])
    return shard_measure(arg[1:])


def run(ctx):
    q = ctx.quick
    args = [("static",)]
    for n in range(2, 7):
        k = (3 if n <= 5 else 1) if q else (12 if n <= 5 else 8)
        for chunk in fw.split(members.orbit_reps(n), {2: 1, 3: 1, 4: 2, 5: 12, 6: 96}[n]):
            args.append(("members", n, chunk, k, ctx.seed, ctx.deadline))
    kc = {2: 2, 3: 5, 4: 18, 5: 93, 6: 760}
    for (n, name) in coupling.CONFIGS:
        for chunk in fw.split(list(range(kc[n])), 1 if n < 6 else 4):
            args.append(("table-graphs", n, name, chunk, ctx.seed))
    for n in range(2, 7):
        parts = {2: 1, 3: 1, 4: 2, 5: 6, 6: 16}[n]
        for part in range(parts):
            args.append(("named", n, part, parts, ctx.seed))
    for (n, name) in coupling.CONFIGS:
        if n >= 3 and name != "all":
            args.append(("cheap", n, name, ctx.seed))
    for i in range(16):
        args.append(("measure", ctx.seed * 1000 + i, 12 if q else 1200, ctx.deadline))
    args.sort(key=lambda a: (0 if a[0] in ("members", "table-graphs", "named") else 1, -(a[1] if a[0] in ("members", "table-graphs", "named") else 0)))
    rep = fw.run_shards(ctx, "props.c02", "shard", args)
    rep.extra["exhaustive"] = False
    rep.extra["exhaustive_part"] = "coupling graphs of the 20 configurations and all 744 MUB circuits are checked completely in every run"
    return rep


def replay(case):
    if case.get("kind") in ("graph", "mub", "available") or "mub_index" in case:
        rep = shard_static(())
        return [f for f in rep.failures if f["case"].get("n") == case.get("n") and f["case"].get("connectivity") == case.get("connectivity")]
    if "N" in case:
        return [{"key": k, "msg": m, "case": case} for k, m, e in check_measure_case(case)]
    if not case.get("strings") and case.get("circuit"):
        try:
            qc = libif.lib().sc.compress_preparation_circuit(libif.build_circuit(case["n"], [(o[0], tuple(o[1])) for o in case["circuit"]]), case["connectivity"])
        except Exception:  # noqa: BLE001
            return []
        v = coupling_violation(libif.ops_of(qc), case["n"], case["connectivity"])
        return [{"key": f"{case['n']}/{case['connectivity']}/{case.get('kind', 'compressed')}", "msg": f"{case['n']}-{case['connectivity']} compressed circuit: {v}", "case": case}] if v else []
    return [{"key": k, "msg": m, "case": case} for k, m, e in check_member_case(case)]
