"""C11 -- tomography of an ordered qubit subset reconstructs that subset's reduced state."""
import numpy as np

import framework as fw
import libif
from oracle import dense, pauli, lc, coupling
from gen import tomo, sweep

RULE = ("Hypothesis: register size N in 3..8, m in 2..min(6,N) measured qubits given as an ORDERED list (any m-subset or a "
        "contiguous block; order drawn from: any permutation, sorted, reversed, rotated, ends in order but interior permuted, one "
        "adjacent transposition), configuration for m, entangled N-qubit "
        "state (Clifford+T / rotation circuits / GHZ-/W-like templates), and a constructed m-qubit stabilizer; both "
        "full_state_tomography_circuits and stabilizer_measurement_circuit are exercised, in reduced and in full-register "
        "mode. A case is one (state, list, configuration). Non-trivial = the reduced state on the list differs (> 1e-3 in some "
        "Pauli expectation) from the reduced state on the mirrored list {N-1-q} AND on the sorted list, as measured by the "
        "oracle, so the case can tell the candidates apart; the list is handed over as plain ints (5/8), numpy integers, or with "
        "all/some indices counted from the end (q-N; today the library accepts these -- a clean IndexError/ValueError/TypeError/"
        "CircuitError refusal is counted as 'rejected', never as a violation, but a silently wrong answer is one); distinct by (N, list, connectivity, state). Oracle: partial trace "
        "of the dense state in list order; identities off the list in full mode; density matrices in little-endian order.")
ASSUMPTIONS = ["results: FakeResult or genuine qiskit.result.Result alternating; stabilizer measurements sit at index 0..2 of a job with decoy experiments of the same name (result_index given)", "dense simulator and partial trace (self-tested)", "lists of plain integer qubit indices (Qubit objects raise TypeError before and after the fix and are outside the generator)"]
BUDGET = {"quick": 400, "thorough": 3000}
TOL = 1e-9


def embed(k, qubits):
    """m-qubit (x, z) on list positions -> N-qubit masks"""
    x = z = 0
    for pos, q in enumerate(qubits):
        x |= ((k[0] >> pos) & 1) << q
        z |= ((k[1] >> pos) & 1) << q
    return (x, z)


def compare(ev, want, n, tag, label, fails, keyprefix):
    if set(ev) != set(want):
        foreign = [pauli.to_str((0,) + k, n, sign=False) for k in list(set(ev) - set(want))[:3]]
        missing = [pauli.to_str((0,) + k, n, sign=False) for k in list(set(want) - set(ev))[:3]]
        fails.append((f"{keyprefix}/{tag}-keys", f"{label}: {tag}: reported Paulis are not the expected set (foreign {foreign}, missing {missing})", {}))
    worst = None
    for k, v in want.items():
        if k in ev and abs(ev[k] - v) > TOL and (worst is None or abs(ev[k] - v) > worst[1]):
            worst = (k, abs(ev[k] - v), ev[k], v)
    if worst:
        k, _, got, v = worst
        fails.append((f"{keyprefix}/{tag}-value", f"{label}: {tag}: <{pauli.to_str((0,) + k, n, sign=False)}> reported as {got:+.6f}, "
                      f"reduced state of the listed qubits gives {v:+.6f}", {"observed": got, "expected": v}))


def check_subset(case):
    L = libif.lib()
    N, m, name, qubits = case["N"], case["m"], case["connectivity"], list(case["qubits"])
    psi = tomo.state_tensor(N, case["state_ops"])
    rng = fw.rng_for("c11z", case.get("zero_seed", 0))
    label = f"{m}-{name} on qubits {qubits} of {N}"
    if case.get("index_form", "plain") != "plain":
        label += f" (handed over as {hand_over(qubits, N, case['index_form'], case.get('zero_seed', 0))}, {case['index_form']})"
    kp = f"{m}/{name}"
    fails = []
    rho = dense.reduced_density(psi, qubits)
    want_red = tomo.pauli_vector(rho, m)
    want_full = {embed(k, qubits): v for k, v in want_red.items()}
    info = {"want_red": want_red}
    prep = libif.build_circuit(N, tomo.ops_tuple(case["state_ops"]))
    form = case.get("index_form", "plain")
    handed = hand_over(qubits, N, form, case.get("zero_seed", 0))
    rejectable = form.startswith("negative")     # from-the-end indices are accepted by the library today; a clean refusal would also be fine
    # ---- full state tomography of the subset
    try:
        ql = tuple(handed) if case.get("zero_seed", 0) % 3 == 0 else list(handed)      # sequence type must not matter
        circs = L.tomo.full_state_tomography_circuits(prep, name, ql)
        counts = [tomo.rescale_counts(tomo.exact_counts([(1.0, dense.run(tomo.measurement_ops(qc), N))], N, rng), case.get("zero_seed", 0) + i) for i, qc in enumerate(circs)]
        fitter = L.tomo.FullStateTomographyFitter(tomo.make_result(counts, circs, case.get("zero_seed", 0)), circs)
        ev_red, p1 = tomo.convert_expectations(fitter.expectation_values(full_hilbert_space=False))
        ev_full, p2 = tomo.convert_expectations(fitter.expectation_values(full_hilbert_space=True))
        for p in (p1 + p2)[:1]:
            fails.append((f"{kp}/tomography-keys", f"{label}: {p}", {}))
        compare(ev_red, want_red, m, "tomography(reduced)", label, fails, kp)
        compare(ev_full, want_full, N, "tomography(full register)", label, fails, kp)
        dm = np.asarray(fitter.density_matrix(full_hilbert_space=False))
        wdm = dense.rho_matrix_le(rho, m)
        if dm.shape != wdm.shape or np.max(np.abs(dm - wdm)) > 1e-8:
            fails.append((f"{kp}/tomography-density", f"{label}: reduced density matrix differs from the partial trace in list order", {}))
        if N <= 6:
            dmf = np.asarray(fitter.density_matrix(full_hilbert_space=True))
            wf = np.zeros((1 << N, 1 << N), dtype=complex)
            for k, v in want_full.items():
                if abs(v) > 1e-14:
                    wf += v * dense.pauli_matrix_le((0,) + k, N)
            wf /= (1 << N)
            if dmf.shape != wf.shape or np.max(np.abs(dmf - wf)) > 1e-8:
                fails.append((f"{kp}/tomography-density-full", f"{label}: full-register density matrix differs from the embedding of the reduced state", {}))
    except dense.UnknownGate as e:
        raise fw.HarnessError(f"uninterpretable gate {e}")
    except Exception as e:  # noqa: BLE001
        if rejectable and isinstance(e, (IndexError, ValueError, TypeError, KeyError)) or type(e).__name__ == "CircuitError" and rejectable:
            info["rejected"] = True
        else:
            fails.append((f"{kp}/tomography-raised:{type(e).__name__}", f"{label}: tomography pipeline raised {type(e).__name__}({e})", {}))
    # ---- stabilizer measurement on the subset
    if case.get("strings"):
        gens = [pauli.parse(s)[:3] for s in case["strings"]]
        try:
            stab = sweep.make_stabilizer(m, gens, "strings+sign")
            qc = L.tomo.stabilizer_measurement_circuit(prep, stab, name, list(handed))
            counts = tomo.exact_counts([(1.0, dense.run(tomo.measurement_ops(qc), N))], N, rng)
            result, k = tomo.job_with_decoys(counts, qc, case.get("zero_seed", 0))
            fit = L.tomo.StabilizerMeasurementFitter(result, qc, result_index=k)
            e_red, p1 = tomo.convert_expectations(fit.expectation_values(full_hilbert_space=False))
            e_full, p2 = tomo.convert_expectations(fit.expectation_values(full_hilbert_space=True))
            span = set(pauli.span_xz(gens))
            w_red = {k: (1.0 if k == (0, 0) else want_red[k]) for k in span}
            w_full = {embed(k, qubits): v for k, v in w_red.items()}
            compare(e_red, w_red, m, "stabilizer measurement(reduced)", label, fails, kp)
            compare(e_full, w_full, N, "stabilizer measurement(full register)", label, fails, kp)
        except Exception as e:  # noqa: BLE001
            if rejectable and (isinstance(e, (IndexError, ValueError, TypeError, KeyError)) or type(e).__name__ == "CircuitError"):
                info["rejected"] = True
                return fails, info
            fails.append((f"{kp}/stabmeas-raised:{type(e).__name__}", f"{label}: stabilizer measurement pipeline raised {type(e).__name__}({e})", {}))
    return fails, info


def hand_over(qubits, N, form, salt):
    """the same ordered list written differently: plain ints, numpy integers, or (some / all) indices counted from the end"""
    if form == "numpy":
        return [np.int64(q) for q in qubits]
    if form == "negative-all":
        return [q - N for q in qubits]
    if form == "negative-some":
        out = [q - N if ((salt >> i) & 1) else q for i, q in enumerate(qubits)]
        if all(v >= 0 for v in out):
            out[-1] -= N
        return out
    return list(qubits)


def list_shape(qubits, N):
    q = list(qubits)
    m = len(q)
    if all(q[i] + q[m - 1 - i] == N - 1 for i in range(m)):
        return "mirror-symmetric"
    if q == sorted(q):
        return "sorted"
    if q == sorted(q, reverse=True):
        return "reversed"
    if q[0] == min(q) and q[-1] == max(q):
        return "ends-in-order,interior-not" + (",contiguous" if max(q) - min(q) == m - 1 else "")
    return "generic" + (",contiguous" if max(q) - min(q) == m - 1 else "")


def distinguishing(case, want_red):
    N, m, qubits = case["N"], case["m"], list(case["qubits"])
    psi = tomo.state_tensor(N, case["state_ops"])

    def differs(other):
        if list(other) == qubits:
            return False
        w2 = tomo.pauli_vector(dense.reduced_density(psi, list(other)), m)
        return any(abs(w2[k] - v) > 1e-3 for k, v in want_red.items())
    return differs([N - 1 - q for q in qubits]) and differs(sorted(qubits))


def strategy():
    from hypothesis import strategies as st
    from gen import hyp

    @st.composite
    def cases(draw):
        N = draw(st.sampled_from([3, 4, 5, 6, 7, 8]))
        m = draw(st.sampled_from([k for k in (2, 2, 3, 3, 3, 3, 4, 4, 4, 4, 5, 5, 6) if k <= N]))
        name = draw(st.sampled_from(sweep.configs(m)))
        # which qubits: any m-subset or a contiguous block; in which order: any, sorted, reversed, rotated, or sorted except for
        # the interior / one adjacent transposition (lists that LOOK ordered at their ends)
        if draw(st.integers(0, 2)) == 0:
            a = draw(st.integers(0, N - m))
            chosen = list(range(a, a + m))
        else:
            chosen = sorted(draw(st.permutations(list(range(N))))[:m])
        order = draw(st.sampled_from(["any", "any", "any", "sorted", "reversed", "rotated", "ends-fixed", "one-transposition"]))
        if order == "any":
            qubits = list(draw(st.permutations(chosen)))
        elif order == "sorted":
            qubits = chosen
        elif order == "reversed":
            qubits = chosen[::-1]
        elif order == "rotated":
            r = draw(st.integers(1, m - 1))
            qubits = chosen[r:] + chosen[:r]
        elif order == "ends-fixed":
            qubits = [chosen[0]] + list(draw(st.permutations(chosen[1:-1]))) + [chosen[-1]]
        else:
            i = draw(st.integers(0, m - 2))
            qubits = list(chosen)
            qubits[i], qubits[i + 1] = qubits[i + 1], qubits[i]
        gens, orbit, _ = draw(hyp.member_gens(m))
        return {"N": N, "m": m, "connectivity": name, "qubits": qubits, "state_ops": draw(tomo.state_ops_strategy(N, max_len=12)),
                "strings": sweep.strings(gens, m), "zero_seed": draw(st.integers(0, 10 ** 6)),
                "index_form": draw(st.sampled_from(["plain"] * 5 + ["numpy", "negative-all", "negative-some"]))}
    return cases()


_MEMO = {}


def check_h(case):
    res = check_subset(case)
    _MEMO.clear()
    _MEMO[repr(case)] = res
    return res[0]


def classify_h(case):
    fails, info = _MEMO.get(repr(case)) or check_subset(case)
    nt = None
    if case["m"] <= 4 or True:
        if distinguishing(case, info["want_red"]):
            nt = (case["N"], tuple(case["qubits"]), case["connectivity"], repr(case["state_ops"]))
    return nt, {"list_shape": list_shape(case["qubits"], case["N"]), "N": case["N"], "index_form": case.get("index_form", "plain") + ("(rejected)" if info.get("rejected") else ""), "m_config": f"{case['m']}-{case['connectivity']}"}


def shard(arg):
    seed, n_examples, deadline = arg
    rep = fw.Report()
    fw.hyp_search(strategy(), check_h, rep, seed, n_examples, classify=classify_h, deadline_ts=deadline)
    return rep


def run(ctx):
    per = 10 if ctx.quick else 300
    args = [(ctx.seed * 1000 + i, per, ctx.deadline) for i in range(32)]
    rep = fw.run_shards(ctx, "props.c11", "shard", args)
    rep.extra["exhaustive"] = False
    return rep


def replay(case):
    return [{"key": k, "msg": m, "case": case} for k, m, e in check_subset(case)[0]]
