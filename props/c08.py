"""C08 -- no silent wrong answers: invalid or unsupported requests are rejected."""
import time
import traceback

import numpy as np

import framework as fw
import libif
from oracle import dense, pauli, lc, coupling
from gen import members, sweep

RULE = ("(a) X/Z matrices with sign vectors: ALL 2^8 pairs for n=2 x all 4 sign vectors; n=3: all 2^18 pairs in thorough, "
        "20 000 drawn in quick; n=4..6 by Hypothesis from three distributions (uniform, sparse, valid stabilizer with one "
        "bit flipped / one column duplicated / one column replaced); the graph-form generators of every table entry's graph with one bit "
        "changed (all single changes for n <= 4, a share for n = 5, 6). (b) Pauli-string lists incl. wrong count and unequal "
        "lengths. (c) the full product {0..8} x {9 known names, 'allx', case variants, '', other text} x 12 public entry "
        "points. A case is one request; outcome classes: raised / returned. Oracle: brute-force validity (pairwise "
        "symplectic products, span enumeration); a returned preparation circuit must (dense) be stabilised by every given "
        "signed operator and is a violation outright for an invalid set; a returned readout circuit must remove the X part "
        "of every given operator; validate() must equal the oracle; advertised pairs must be served, all others rejected. "
        "Non-trivial = invalid input whose rejection happens beyond the input checks (layer search / synthesis / sign "
        "repair), a returned readout for an invalid set, or a valid set in a non-canonical basis; distinct by the request.")
ASSUMPTIONS = ["brute-force validity oracle", "dense simulator / bitmask propagation", "the 20 advertised pairs as transcribed from the README"]
BUDGET = {"quick": 400, "thorough": 3000}
SHALLOW_SITES = {"assert_connectivity_is_supported", "__init__", "validate", "get_readout_circuit", "get_preparation_circuit", "<none>"}


def exc_site(e):
    """innermost frame inside the htstabilizer package"""
    site = "<none>"
    for fr in traceback.extract_tb(e.__traceback__):
        if "htstabilizer" in fr.filename:
            site = fr.name
    return site


def build_stab(case):
    L = libif.lib()
    n = case["n"]
    gens = [tuple(g) for g in case["gens"]]
    fmt = case["format"]
    if fmt == "strings":
        strs = case.get("strings") or libif.paulis_to_strings(gens, n, "minimal")
        return L.Stabilizer(list(strs))
    R, S, ph = libif.paulis_to_matrices(gens, n)
    if fmt == "matrices":
        return L.Stabilizer((R, S))
    return L.Stabilizer((R, S, ph))


def check_ops(case):
    """one set of n operators on n qubits (valid or not) against prepare / readout / validate"""
    L = libif.lib()
    n, name = case["n"], case["connectivity"]
    gens = [tuple(g) for g in case["gens"]]
    if case["format"] == "matrices":
        gens = [(0, g[1], g[2]) for g in gens]
    valid = pauli.is_valid_stabilizer(gens, n)
    label = f"{[pauli.to_str(g, n) for g in gens]} ({case['format']})"
    fails = []
    info = {"valid": valid, "prep": None, "readout": None}
    try:
        stab = build_stab(case)
    except Exception as e:  # noqa: BLE001
        info["prep"] = info["readout"] = f"ctor:{type(e).__name__}"
        if valid:
            fails.append((f"n={n}/ctor-rejects-valid", f"Stabilizer() raised {type(e).__name__} for the valid set {label}", {}))
        return fails, info
    # validate
    try:
        v = bool(stab.validate())
        if v != valid:
            fails.append((f"n={n}/validate", f"validate() = {v} for {label}, which is {'a valid' if valid else 'not a valid'} set of {n} commuting independent Paulis",
                          {"observed": v, "expected": valid}))
    except Exception as e:  # noqa: BLE001
        fails.append((f"n={n}/validate-raised", f"validate() raised {type(e).__name__} for {label}", {}))
    # constructor with validate=True must refuse exactly the invalid sets
    try:
        c2 = dict(case)
        L_ = libif.lib()
        g_ = [tuple(g) for g in case["gens"]]
        if case["format"] == "strings":
            L_.Stabilizer(list(case.get("strings") or libif.paulis_to_strings(g_, n, "minimal")), validate=True)
        else:
            R_, S_, p_ = libif.paulis_to_matrices(g_, n)
            L_.Stabilizer((R_, S_) if case["format"] == "matrices" else (R_, S_, p_), validate=True)
        accepted = True
    except Exception:  # noqa: BLE001
        accepted = False
    if accepted != valid:
        fails.append((f"n={n}/ctor-validate", f"Stabilizer(..., validate=True) {'accepted' if accepted else 'refused'} {label}, which is "
                      f"{'a valid' if valid else 'not a valid'} stabilizer", {"observed": accepted, "expected": valid}))
    # preparation
    try:
        qc = libif.guarded(lambda: L.sc.get_preparation_circuit(stab, name))
        info["prep"] = "returned"
    except (libif.GuardTimeout, MemoryError):
        qc = None
        info["prep"] = "inconclusive:resource-guard"
    except Exception as e:  # noqa: BLE001
        qc = None
        info["prep"] = f"raised:{exc_site(e)}"
        if valid:
            fails.append((f"{n}/{name}/prep-rejects-valid:{type(e).__name__}", f"{n}-{name}: get_preparation_circuit raised {type(e).__name__}({e}) for the valid set {label}", {}))
    if qc is not None:
        if not valid:
            fails.append((f"{n}/{name}/prep-accepts-invalid", f"{n}-{name}: get_preparation_circuit returned a circuit for {label}, which is not a stabilizer", {}))
        else:
            psi = dense.run(libif.ops_of(qc), n)
            for g in gens:
                ev = dense.expectation(psi, g, n)
                if abs(ev - 1) > 1e-9:
                    fails.append((f"{n}/{name}/prep-wrong", f"{n}-{name}: returned preparation circuit is not stabilised by {pauli.to_str(g, n)} (<P>={ev:+.3f}) for {label}", {}))
                    break
    # readout
    try:
        stab2 = build_stab(case)
        rc = libif.guarded(lambda: L.sc.get_readout_circuit(stab2, name))
        info["readout"] = "returned"
    except (libif.GuardTimeout, MemoryError):
        rc = None
        info["readout"] = "inconclusive:resource-guard"
    except Exception as e:  # noqa: BLE001
        rc = None
        info["readout"] = f"raised:{exc_site(e)}"
        if valid:
            fails.append((f"{n}/{name}/readout-rejects-valid:{type(e).__name__}", f"{n}-{name}: get_readout_circuit raised {type(e).__name__}({e}) for the valid set {label}", {}))
    if rc is not None:
        pops = [(o[0], tuple(o[1])) for o in libif.ops_of(rc)]
        try:
            for g in gens:
                img = pauli.propagate(g, pops)
                if img[1] != 0:
                    fails.append((f"{n}/{name}/readout-wrong:{'valid' if valid else 'invalid'}-input",
                                  f"{n}-{name}: returned readout circuit maps given operator {pauli.to_str(g, n)} to {pauli.to_str(img, n)} (not diagonal) for {label}", {}))
                    break
        except KeyError:
            raise fw.HarnessError("non-Clifford gate in readout circuit")
    return fails, info


def nontrivial_ops(case, info):
    n = case["n"]
    gens = [tuple(g) for g in case["gens"]]
    if info["valid"]:
        canon = pauli.canonical_group(gens, n)
        if sorted(pauli.vec(g, n) for g in gens) != list(canon):
            return ("v", n, case["connectivity"], tuple(gens), case["format"])
        return None
    deep = False
    for k in ("prep", "readout"):
        o = info[k] or ""
        if o == "returned" or (o.startswith("raised:") and o.split(":", 1)[1] not in SHALLOW_SITES and not o.split(":", 1)[1].startswith("determine_lc_class")):
            deep = True
    return ("i", n, case["connectivity"], tuple(gens), case["format"]) if deep else None


def run_ops(rep, case, sample=False):
    fails, info = check_ops(case)
    rep.case(nontrivial_ops(case, info), dict(case, outcome=info) if sample else None)
    rep.count("input_validity", "valid" if info["valid"] else "invalid")
    rep.count("prep_outcome" + ("(valid)" if info["valid"] else "(invalid)"), info["prep"])
    rep.count("readout_outcome" + ("(valid)" if info["valid"] else "(invalid)"), info["readout"])
    for key, msg, extra in fails:
        rep.fail(key, case, msg, **extra)


def decode_matrices(n, code):
    """code -> generators: bit (i*n + j) of the low half = R[i, j], of the high half = S[i, j]; column j = generator j"""
    gens = []
    for j in range(n):
        x = z = 0
        for i in range(n):
            x |= ((code >> (i * n + j)) & 1) << i
            z |= ((code >> (n * n + i * n + j)) & 1) << i
        gens.append([0, x, z])
    return gens


def shard_matrices(arg):
    n, codes, sign_mode, cfg_mode, seed, deadline = arg
    rep = fw.Report()
    cfgs = sweep.configs(n)
    if isinstance(codes, list) and len(codes) == 2 and codes[0] == "range":
        codes = range(codes[1][0], codes[1][1])
    for idx, code in enumerate(codes):
        if deadline and idx % 64 == 0 and time.time() > deadline:
            rep.truncated = True
            break
        base = decode_matrices(n, code)
        rng = fw.rng_for("c08m", seed, n, code)
        svs = range(1 << n) if sign_mode == "all" else [rng.randrange(1 << n)]
        names = cfgs if cfg_mode == "all" else [cfgs[code % len(cfgs)]]
        for sv in svs:
            gens = [[(sv >> i) & 1, g[1], g[2]] for i, g in enumerate(base)]
            for name in names:
                fmt = "matrices+phases" if (sv or (code & 1)) else "matrices"
                run_ops(rep, {"n": n, "connectivity": name, "gens": gens, "format": fmt}, sample=(idx % 3000 == 7 and sv == svs[0] and name == names[0]))
    return rep


# ---- Hypothesis: near misses and string lists ----------------------------------------------------

def ops_strategy():
    from hypothesis import strategies as st
    from gen import hyp

    @st.composite
    def cases(draw):
        n, name = draw(hyp.config_strategy((3, 4, 5, 6)))
        # the layer search enumerates 2^(kernel dimension) combinations: arbitrary matrices on 5-6 qubits can take minutes and
        # gigabytes inside the library (performance, not a verdict), so the unstructured distributions stay on n <= 4
        kinds = ["near-miss", "near-miss", "valid", "dependent-commuting"] + (["uniform", "sparse"] if n <= 4 else [])
        kind = draw(st.sampled_from(kinds))
        full = (1 << n) - 1
        if kind == "uniform":
            gens = [[draw(st.integers(0, 1)), draw(st.integers(0, full)), draw(st.integers(0, full))] for _ in range(n)]
        elif kind == "sparse":
            gens = []
            for _ in range(n):
                x = z = 0
                for _k in range(draw(st.integers(0, 2))):
                    q = draw(st.integers(0, n - 1))
                    if draw(st.booleans()):
                        x |= 1 << q
                    else:
                        z |= 1 << q
                gens.append([draw(st.integers(0, 1)), x, z])
        else:
            g, orbit, _ = draw(hyp.member_gens(n))
            gens = [list(t) for t in g]
            if kind == "near-miss":
                how = draw(st.sampled_from(["flip", "dup", "replace", "product"]))
                j = draw(st.integers(0, n - 1))
                if how == "flip":
                    q = draw(st.integers(0, n - 1))
                    gens[j][1 + draw(st.integers(0, 1))] ^= 1 << q
                elif how == "dup":
                    i = draw(st.integers(0, n - 1))
                    gens[j] = list(gens[i])
                elif how == "replace":
                    gens[j] = [0, draw(st.integers(0, full)), draw(st.integers(0, full))]
                else:
                    i = draw(st.integers(0, n - 2)); i = i if i < j else i + 1
                    k = (i + 1) % n
                    if k == j:
                        k = (k + 1) % n
                    if k != i and k != j:
                        p = pauli.mul(tuple(gens[i]), tuple(gens[k]))
                        gens[j] = list(p)
            elif kind == "dependent-commuting":
                # rank-deficient but commuting: replace generators by products/identity
                j = draw(st.integers(0, n - 1))
                gens[j] = [0, 0, 0] if draw(st.booleans()) else list(gens[(j + 1) % n])
        fmt = draw(st.sampled_from(["matrices+phases", "strings", "matrices"]))
        return {"n": n, "connectivity": name, "gens": gens, "format": fmt, "distribution": kind}
    return cases()


_MEMO = {}


def check_ops_h(case):
    res = check_ops(case)
    _MEMO.clear()
    _MEMO[repr(case)] = res
    return res[0]


def classify_ops(case):
    fails, info = _MEMO.get(repr(case)) or check_ops(case)
    return nontrivial_ops(case, info), {"distribution": case.get("distribution", "?"), "input_validity": "valid" if info["valid"] else "invalid",
                                        "prep_outcome" + ("(valid)" if info["valid"] else "(invalid)"): info["prep"],
                                        "readout_outcome" + ("(valid)" if info["valid"] else "(invalid)"): info["readout"]}


def shard_hyp(arg):
    seed, n_examples, deadline = arg
    rep = fw.Report()
    fw.hyp_search(ops_strategy(), check_ops_h, rep, seed, n_examples, classify=classify_ops, deadline_ts=deadline)
    return rep


# ---- near misses of the representatives the tables store ----------------------------------------------------

def shard_table_near_miss(arg):
    """the canonical graph-form generators of the graph stored in a table entry with ONE bit changed (a Z made I or vice versa off
    the diagonal, or an X added): the operator set closest to what the pipeline is tuned for, but not a stabilizer"""
    n, name, class_ids, stride, seed, deadline = arg
    from gen import tableinfo
    rep = fw.Report()
    ent = tableinfo.parsed(n, name)
    for k in class_ids:
        if k >= len(ent) or ent[k] is None:
            continue
        base = lc.graph_state_gens(n, ent[k][0])
        flips = [(j, "z", q) for j in range(n) for q in range(n) if q != j] + [(j, "x", q) for j in range(n) for q in range(n) if q != j]
        for fi, (j, which, q) in enumerate(flips):
            if stride > 1 and fw.h64("c08t", seed, n, name, k, fi) % stride:
                continue
            if deadline and time.time() > deadline:
                rep.truncated = True
                return rep
            gens = [list(g) for g in base]
            gens[j][1 if which == "x" else 2] ^= 1 << q
            fmt = ["matrices", "strings", "matrices+phases"][fi % 3]
            run_ops(rep, {"n": n, "connectivity": name, "gens": gens, "format": fmt, "distribution": "table-graph-near-miss"},
                    sample=(k % 50 == 3 and fi == 1))
    return rep


def shard_qubit_row_near_miss(arg):
    """a valid stabilizer in which the Paulis ON ONE QUBIT (one row of R and S) are replaced by arbitrary ones: the corruption is
    local to a qubit instead of local to a generator.  Table graphs with an isolated / low-degree vertex in graph form and
    constructed members are used as the valid starting points."""
    n, name, class_ids, per, seed, deadline = arg
    from gen import tableinfo
    rep = fw.Report()
    ent = tableinfo.parsed(n, name)
    for k in class_ids:
        if k >= len(ent) or ent[k] is None:
            continue
        gid = ent[k][0]
        adj = lc.adj_from_gid(n, gid)
        for j in range(per):
            if deadline and time.time() > deadline:
                rep.truncated = True
                return rep
            rng = fw.rng_for("c08q", seed, n, name, k, j)
            if j % 2 == 0:
                base = [list(g) for g in lc.graph_state_gens(n, gid)]
            else:
                base = [list(g) for g in members.member(n, lc.orbit_table(n)[gid], rng, signs="plus", mix=(j % 4 == 1))[0]]
            # prefer the vertices of lowest degree (isolated qubits first), they are the ones special-cased by classifiers
            order = sorted(range(n), key=lambda v: (bin(adj[v]).count("1"), rng.random()))
            q = order[0] if rng.random() < 0.7 else rng.randrange(n)
            gens = [list(g) for g in base]
            for g in gens:
                g[1] = (g[1] & ~(1 << q)) | (rng.randrange(2) << q)
                g[2] = (g[2] & ~(1 << q)) | (rng.randrange(2) << q)
            fmt = ["matrices", "strings", "matrices+phases"][j % 3]
            run_ops(rep, {"n": n, "connectivity": name, "gens": gens, "format": fmt, "distribution": "qubit-row-near-miss"},
                    sample=(k % 40 == 2 and j == 1))
    return rep


def shard_dense_perturbations(arg):
    """random stabilizers (group of a random 40-gate Clifford circuit, densely mixed generators) with one or two bits of the
    X/Z matrices flipped: the bulk of 'typo' inputs, in the natural distribution over LC classes"""
    n, count, seed, sid, deadline = arg
    rep = fw.Report()
    cfgs = sweep.configs(n)
    full = (1 << n) - 1
    for i in range(count):
        if deadline and i % 50 == 0 and time.time() > deadline:
            rep.truncated = True
            break
        rng = fw.rng_for("c08d", seed, n, sid, i)
        # H on every qubit + 60 gates with many entangling ones: close to the uniform distribution over all stabilizer groups
        # (measured for n = 5: ring class 9.7% vs exactly 10.3%); plain short circuits from |0..0> are 39% product states
        gens = members.group_of_circuit(n, [("h", (q_,)) for q_ in range(n)] + members.random_clifford_ops(n, rng, 60, p2=0.5))
        gens = [list(g) for g in members.random_basis_change(gens, rng, steps=3 * n)]
        for _ in range(rng.choice([1, 1, 2])):
            j = rng.randrange(n)
            gens[j][rng.choice([1, 2])] ^= 1 << rng.randrange(n)
        fmt = ["matrices+phases", "strings", "matrices"][i % 3]
        run_ops(rep, {"n": n, "connectivity": cfgs[i % len(cfgs)], "gens": gens, "format": fmt, "distribution": "dense-perturbation"},
                sample=(i == 5))
    return rep


# ---- malformed string lists ---------------------------------------------------------------------

def shard_lists(arg):
    """lists with wrong count / unequal lengths / stray characters: must raise or be right"""
    seed, count = arg
    L = libif.lib()
    rep = fw.Report()
    for i in range(count):
        rng = fw.rng_for("c08l", seed, i)
        n = rng.randrange(2, 7)
        name = rng.choice(sweep.configs(n))
        gens, _ = members.member(n, rng.choice(members.orbit_reps(n)), rng)
        strs = libif.paulis_to_strings(gens, n, "minimal")
        how = rng.choice(["drop", "extra", "short", "long", "badchar", "lower"])
        if how == "drop":
            strs = strs[:-1]
        elif how == "extra":
            strs = strs + [strs[0]]
        elif how == "short":
            j = rng.randrange(n); strs[j] = strs[j][:-1]
        elif how == "long":
            j = rng.randrange(n); strs[j] = strs[j] + "I"
        elif how == "badchar":
            j = rng.randrange(n); strs[j] = strs[j][:-1] + rng.choice("ABQ1 ")
        else:
            j = rng.randrange(n); strs[j] = strs[j].lower()
        case = {"n": n, "connectivity": name, "strings": strs, "malformed": how}
        outcome = "raised"
        try:
            stab = L.Stabilizer(list(strs))
            qc = L.sc.get_preparation_circuit(stab, name)
            outcome = "returned"
        except Exception as e:  # noqa: BLE001
            outcome = f"raised:{type(e).__name__}"
        if outcome == "returned":
            # accepted: then it must be right for a sensible reading -- same length n strings only
            ok = False
            try:
                g2 = [pauli.parse(s)[:3] for s in strs]
                if len(g2) == n and all(pauli.parse(s)[3] == n for s in strs) and pauli.is_valid_stabilizer(g2, n):
                    psi = dense.run(libif.ops_of(qc), n)
                    ok = all(abs(dense.expectation(psi, g, n) - 1) < 1e-9 for g in g2)
            except Exception:  # noqa: BLE001
                ok = False
            if not ok:
                rep.fail(f"malformed-list-accepted:{how}", case, f"{n}-{name}: malformed Pauli list {strs} ({how}) was accepted and a circuit returned")
        rep.case(("list", tuple(strs), name), case if i % 40 == 0 else None)
        rep.count("malformed_list_outcome", f"{how}:{outcome}")
    return rep


# ---- entry points x (n, name) ----------------------------------------------------------------

NAMES = ["all", "linear", "star", "cycle", "T", "Q", "ladder", "E", "H", "allx", "All", "LINEAR", "Star", "", "ring", "t", "q", "line", "full"]
ENTRIES = ["get_preparation_circuit", "get_readout_circuit", "compress_preparation_circuit", "get_mub_circuits", "get_mubs",
           "get_mub_info", "get_connectivity_graph", "assert_connectivity_is_supported", "is_connectivity_supported",
           "stabilizer_measurement_circuit", "full_state_tomography_circuits", "stabilizer_measurement_circuit[subset]",
           "full_state_tomography_circuits[subset]"]


def call_entry(entry, k, name):
    """returns ('served', value) / ('rejected', exc type)"""
    L = libif.lib()
    QC = L.QuantumCircuit

    def zstab(m):
        return L.Stabilizer(["I" * i + "Z" + "I" * (m - 1 - i) for i in range(m)])
    try:
        if entry == "get_preparation_circuit":
            v = L.sc.get_preparation_circuit(zstab(k), name)
        elif entry == "get_readout_circuit":
            v = L.sc.get_readout_circuit(zstab(k), name)
        elif entry == "compress_preparation_circuit":
            qc = QC(k)
            if k >= 1:
                qc.h(0)
            v = L.sc.compress_preparation_circuit(qc, name)
        elif entry == "get_mub_circuits":
            v = L.mub.get_mub_circuits(k, name)
        elif entry == "get_mubs":
            v = L.mub.get_mubs(k, name)
        elif entry == "get_mub_info":
            v = L.mub.get_mub_info(k, name)
        elif entry == "get_connectivity_graph":
            v = L.conn.get_connectivity_graph(k, name)
        elif entry == "assert_connectivity_is_supported":
            v = L.conn.assert_connectivity_is_supported(k, name)
        elif entry == "is_connectivity_supported":
            v = L.conn.is_connectivity_supported(k, name)
            return ("served" if v is True else "rejected", v)
        elif entry == "stabilizer_measurement_circuit":
            v = L.tomo.stabilizer_measurement_circuit(QC(k), zstab(k), name)
        elif entry == "full_state_tomography_circuits":
            v = L.tomo.full_state_tomography_circuits(QC(k), name)
        elif entry == "stabilizer_measurement_circuit[subset]":
            v = L.tomo.stabilizer_measurement_circuit(QC(k + 2), zstab(k), name, list(range(k + 1, 1, -1)))
        elif entry == "full_state_tomography_circuits[subset]":
            v = L.tomo.full_state_tomography_circuits(QC(k + 2), name, list(range(k + 1, 1, -1)))
        else:
            raise fw.HarnessError(entry)
        return ("served", v)
    except fw.HarnessError:
        raise
    except Exception as e:  # noqa: BLE001
        return ("rejected", type(e).__name__)


def check_entry(case):
    k, name, entry = case["n"], case["name"], case["entry"]
    advertised = (k, name) in coupling.EDGES
    out, val = call_entry(entry, k, name)
    fails = []
    if advertised and out != "served":
        fails.append((f"entry/{entry}/rejects-advertised", f"{entry} rejects the advertised configuration ({k}, {name!r}) with {val}", {}))
    if not advertised and out == "served":
        fails.append((f"entry/{entry}/serves-unadvertised", f"{entry} serves ({k}, {name!r}), which is not one of the 20 advertised configurations", {}))
    return fails, out, val


def shard_entries(arg):
    rep = fw.Report()
    for k in range(0, 9):
        for name in NAMES:
            for entry in ENTRIES:
                case = {"n": k, "name": name, "entry": entry}
                fails, out, val = check_entry(case)
                adv = (k, name) in coupling.EDGES
                rep.case(("entry", k, name, entry) if (adv or (2 <= k <= 6)) else None, dict(case, outcome=out) if (k == 6 and name in ("allx", "E") and entry.startswith("get_mub_c")) else None)
                rep.count("entry_outcome", f"{'advertised' if adv else 'other'}:{out}" + (f":{val}" if out == "rejected" else ""))
                for key, msg, extra in fails:
                    rep.fail(key, case, msg, **extra)
    return rep


def shard(arg):
    kind = arg[0]
    libif.limit_memory(6)
    return {"matrices": shard_matrices, "hyp": shard_hyp, "lists": shard_lists, "entries": shard_entries,
            "table-near-miss": shard_table_near_miss, "qubit-row": shard_qubit_row_near_miss,
            "dense-perturbation": shard_dense_perturbations}[kind](arg[1:])


def run(ctx):
    q = ctx.quick
    dl = ctx.deadline
    args = [("entries",), ("lists", ctx.seed, 150 if q else 1500)]
    args.append(("matrices", 2, list(range(256)), "all", "all", ctx.seed, dl))
    if q:
        rng = fw.rng_for("c08", ctx.seed)
        codes = sorted(rng.sample(range(1 << 18), 20000))
        for chunk in fw.split(codes, 32):
            args.append(("matrices", 3, chunk, 1, "one", ctx.seed, dl))
    else:
        step = 1 << 10
        for lo in range(0, 1 << 18, step):
            args.append(("matrices", 3, ["range", [lo, lo + step]], 1, "all", ctx.seed, dl))
    for i in range(16):
        args.append(("hyp", ctx.seed * 1000 + i, 60 if q else 1500, dl))
    for n, total in ((4, 2000), (5, 6400), (6, 1600)):
        for sid in range(16):
            args.append(("dense-perturbation", n, (total if q else total * 10) // 16, ctx.seed, sid, dl))
    kc = {2: 2, 3: 5, 4: 18, 5: 93, 6: 760}
    for (n, name) in coupling.CONFIGS:
        stride = 1 if n <= 4 else ((4 if n == 5 else 40) if q else (1 if n == 5 else 4))
        for chunk in fw.split(list(range(kc[n])), 1 if n <= 4 else (2 if n == 5 else 8)):
            args.append(("table-near-miss", n, name, chunk, stride, ctx.seed, dl))
        per = {2: 8, 3: 12, 4: 12, 5: 8, 6: 2}[n] * (1 if q else 8)
        for chunk in fw.split(list(range(kc[n])), 1 if n <= 4 else (2 if n == 5 else 8)):
            args.append(("qubit-row", n, name, chunk, per, ctx.seed, dl))
    rep = fw.run_shards(ctx, "props.c08", "shard", args)
    rep.extra["exhaustive"] = False
    rep.extra["exhaustive_part"] = ("all 2^8 matrix pairs for n=2 x all sign vectors; full product of entry points x names x qubit counts 0..8" +
                                    ("" if q else "; all 2^18 matrix pairs for n=3 on both configurations"))
    return rep


def replay(case):
    if "entry" in case:
        return [{"key": k, "msg": m, "case": case} for k, m, e in check_entry(case)[0]]
    if "malformed" in case:
        return []
    return [{"key": k, "msg": m, "case": case} for k, m, e in check_ops(case)[0]]
