"""C16 -- the local-Clifford layer search is sound and complete."""
import itertools
import time

import numpy as np

import framework as fw
import libif
from oracle import pauli, lc, groups
from gen import members, sweep

RULE = ("(i) exhaustive: all operator sets with m <= 2 operators on n = 2 qubits (identity included) against both graphs; "
        "(ii) Hypothesis: n = 2..6, m = 1..n operators (a quarter of the lists padded with identity operators), arbitrary graph, three distributions -- uniform (mostly 'no layer'), "
        "planted (random subset of a random local-Clifford image of the graph's group: 'exists'), planted-then-corrupted; "
        "(iii) every stabilizer group for n <= 3 (quick) / n <= 4 (thorough) against EVERY graph on n vertices, and constructed "
        "members for n = 5, 6 against graphs of the same and of other LC classes. A case is one call of "
        "find_local_clifford_layer. Non-trivial = either branch with m < n, or 'no layer' for a full valid group; distinct by "
        "(operators, graph). Oracle: brute force over all 6^n layers with the membership test Gamma*x' + z' = 0 for every "
        "operator; admissibility of the six blocks; symplectic propagation of X_q, Z_q through the generated gate list.")
ASSUMPTIONS = ["brute-force enumeration of all 6^n local Clifford layers (numpy-vectorised)", "bitmask conjugation rules (self-tested)"]
BUDGET = {"quick": 400, "thorough": 3000}

# the six single-qubit Cliffords mod Paulis as (a, b, c, d): x' = a x + b z, z' = c x + d z
BLOCKS = [(1, 0, 0, 1), (0, 1, 1, 0), (1, 0, 1, 1), (1, 1, 1, 0), (0, 1, 1, 1), (1, 1, 0, 1)]
_LAYERS = {}


def layers(n):
    if n not in _LAYERS:
        _LAYERS[n] = np.array(list(itertools.product(range(6), repeat=n)), dtype=np.int8)
    return _LAYERS[n]


def brute_solutions(n, gid, ops):
    """boolean vector over all 6^n layers: True where every operator lands in the graph-state group"""
    m = len(ops)
    gam = np.zeros((n, n), dtype=np.int8)
    for (i, j) in lc.edges_from_gid(n, gid):
        gam[i, j] = gam[j, i] = 1
    X = np.array([[(x >> q) & 1 for (x, z) in ops] for q in range(n)], dtype=np.int8)   # n x m
    Z = np.array([[(z >> q) & 1 for (x, z) in ops] for q in range(n)], dtype=np.int8)
    B = np.array(BLOCKS, dtype=np.int8)                                                 # 6 x 4
    # per qubit and Clifford: images  (6, n, m)
    Xp = (B[:, 0][:, None, None] * X[None] + B[:, 1][:, None, None] * Z[None]) & 1
    Zp = (B[:, 2][:, None, None] * X[None] + B[:, 3][:, None, None] * Z[None]) & 1
    Ls = layers(n)                                                                      # (6^n, n)
    q = np.arange(n)
    XL = Xp[Ls, q[None, :], :]                                                          # (6^n, n, m)
    ZL = Zp[Ls, q[None, :], :]
    lhs = (np.einsum("ij,ljm->lim", gam.astype(np.int16), XL.astype(np.int16)) + ZL) & 1
    return ~lhs.reshape(len(Ls), -1).any(axis=1)


def check_layer(case):
    L = libif.lib()
    n, gid = case["n"], case["gid"]
    ops = [tuple(o) for o in case["ops"]]
    m = len(ops)
    label = f"operators {[pauli.to_str((0, x, z), n, sign=False) for (x, z) in ops]} vs graph {gid} on {n} vertices"
    R = np.array([[(x >> q) & 1 for (x, z) in ops] for q in range(n)], dtype=np.int8)
    S = np.array([[(z >> q) & 1 for (x, z) in ops] for q in range(n)], dtype=np.int8)
    # element type of the caller's arrays must not matter (qiskit's PauliList.x / .z are boolean arrays, Stabilizer holds int8)
    dt = case.get("dtype") or ["int8", "bool", "int8", "uint8", "bool", "int64"][fw.h64("c16dt", n, gid, ops) % 6]
    R8, S8 = R, S
    R, S = R.astype(dt), S.astype(dt)
    label += f" [arrays of dtype {dt}]"
    R0, S0 = R.copy(), S.copy()
    try:
        graph = L.Graph.decompress(n, gid)
    except Exception as e:  # noqa: BLE001   (C19's business)
        return [], {"exists": None, "outcome": f"graph-raised:{type(e).__name__}"}
    sol = brute_solutions(n, gid, ops)
    exists = bool(sol.any())
    fails = []
    info = {"exists": exists, "outcome": None, "dtype": dt}
    try:
        A = libif.guarded(lambda: L.fl.find_local_clifford_layer(R, S, graph), 12)
    except (libif.GuardTimeout, MemoryError):
        info["outcome"] = "inconclusive:resource-guard"
        return fails, info
    except Exception as e:  # noqa: BLE001
        info["outcome"] = f"raised:{type(e).__name__}"
        fails.append((f"layer/raised:{type(e).__name__}:{'exists' if exists else 'absent'}",
                      f"find_local_clifford_layer raised {type(e).__name__}({e}) -- a layer {'exists' if exists else 'does not exist'}; {label}", {}))
        return fails, info
    if not (np.array_equal(R, R0) and np.array_equal(S, S0)):
        fails.append(("layer/input-mutated", f"R/S arguments were modified; {label}", {}))
    if A is None:
        info["outcome"] = "none"
        if exists:
            idx = int(np.argmax(sol))
            fails.append(("layer/false-none", f"search reports absence although e.g. layer {[BLOCKS[k] for k in layers(n)[idx]]} works; {label}", {}))
        return fails, info
    info["outcome"] = "layer"
    try:
        blocks = []
        ok_shape = len(A) == 4 and all(np.asarray(a).shape == (n, n) for a in A)
        if ok_shape:
            for a in A:
                a = np.asarray(a)
                if np.any(a - np.diag(np.diag(a))):
                    ok_shape = False
            blocks = [tuple(int(np.asarray(A[j])[i, i]) & 1 for j in range(4)) for i in range(n)]
        if not ok_shape:
            fails.append(("layer/shape", f"returned layer is not four diagonal n x n blocks; {label}", {}))
            return fails, info
    except Exception:  # noqa: BLE001
        fails.append(("layer/shape", f"returned object is not a layer; {label}", {}))
        return fails, info
    if any(b not in BLOCKS for b in blocks):
        fails.append(("layer/inadmissible-block", f"returned blocks {blocks} contain a matrix that is not a single-qubit Clifford; {label}", {}))
        return fails, info
    idx = 0
    for b in blocks:
        idx = idx * 6 + BLOCKS.index(b)
    if not sol[idx]:
        fails.append(("layer/unsound" + ("" if exists else "-none-exists"),
                      f"returned layer {blocks} does not map all operators into the graph state's group ({'other layers do' if exists else 'no layer does'}); {label}", {}))
    # library's own checker must agree with the oracle on the returned layer
    try:
        if bool(L.fl.check_LC(R8, S8, graph, A)) != bool(sol[idx]):
            fails.append(("layer/check_LC", f"check_LC disagrees with the brute-force membership test for {blocks}; {label}", {}))
    except Exception:  # noqa: BLE001
        pass
    # gate sequence implements exactly that layer
    try:
        qc = L.fl.local_clifford_layer_to_circuit(A)
        pops = [(o[0], tuple(o[1])) for o in libif.ops_of(qc)]
        if any(len(o[1]) != 1 for o in pops):
            fails.append(("circuit/multi-qubit", f"layer circuit contains a multi-qubit gate; blocks {blocks}", {}))
        for qb in range(n):
            a, b, c, d = blocks[qb]
            ix = pauli.propagate((0, 1 << qb, 0), pops)
            iz = pauli.propagate((0, 0, 1 << qb), pops)
            if (ix[1], ix[2]) != (a << qb, c << qb) or (iz[1], iz[2]) != (b << qb, d << qb):
                fails.append(("circuit/mismatch", f"gate list {pops} acts on qubit {qb} as X->{pauli.to_str(ix, n)}, Z->{pauli.to_str(iz, n)}, the block {blocks[qb]} says otherwise", {}))
                break
    except KeyError:
        raise fw.HarnessError("layer circuit contains an unknown gate")
    except Exception as e:  # noqa: BLE001
        fails.append((f"circuit/raised:{type(e).__name__}", f"local_clifford_layer_to_circuit raised {type(e).__name__} for blocks {blocks}", {}))
    return fails, info


def nontrivial(case, info):
    n, m = case["n"], len(case["ops"])
    if info["outcome"] is None or str(info["outcome"]).startswith("inconclusive"):
        return None
    gens = [(0, o[0], o[1]) for o in case["ops"]]
    if m < n:
        return ("p", n, case["gid"], tuple(map(tuple, case["ops"])))
    if not info["exists"] and m == n and pauli.is_valid_stabilizer(gens, n):
        return ("f", n, case["gid"], tuple(map(tuple, case["ops"])))
    return None


def run_case(rep, case, sample=False):
    fails, info = check_layer(case)
    rep.case(nontrivial(case, info), dict(case, outcome=info["outcome"], layer_exists=info["exists"]) if sample else None)
    rep.count("branch", f"{'exists' if info['exists'] else 'absent'}:{info['outcome']}")
    rep.count("dtype", info.get("dtype", "?"))
    rep.count("n_m", f"n={case['n']},m={len(case['ops'])}")
    for key, msg, extra in fails:
        rep.fail(key, case, msg, **extra)


def strategy():
    from hypothesis import strategies as st
    from gen import hyp

    @st.composite
    def cases(draw):
        n = draw(st.sampled_from([2, 3, 4, 5, 6]))
        gid = draw(st.integers(0, (1 << (n * (n - 1) // 2)) - 1))
        # few operators make the library enumerate 2^(>= 4n - n*m) kernel combinations: keep m large enough on 5-6 qubits
        m_min = 1 if n <= 4 else (3 if n == 5 else 4)
        m = draw(st.integers(m_min, n))
        kind = draw(st.sampled_from(["uniform", "planted", "planted", "corrupted"]))
        full = (1 << n) - 1
        if kind == "uniform":
            ops = []
            for _ in range(m):
                x, z = draw(st.integers(0, full)), draw(st.integers(0, full))
                if x == 0 and z == 0:
                    x = 1
                ops.append([x, z])
            if n >= 5:
                # the library's search enumerates 16x more combinations for every qubit no operator acts on (27 s for four copies
                # of X_0 on six qubits): on 5-6 qubits make every qubit acted on; idle qubits are covered on n <= 4 and by the
                # planted subsets
                for qq in range(n):
                    if not any(((o[0] | o[1]) >> qq) & 1 for o in ops):
                        ops[qq % m][draw(st.integers(0, 1))] |= 1 << qq
        else:
            gens = lc.graph_state_gens(n, gid)
            layer = []
            for q in range(n):
                for g in draw(st.sampled_from(members.LOCAL_WORDS)):
                    layer.append((g, (q,)))
            gens = [pauli.propagate(g, layer) for g in gens]
            gens = list(gens)
            for (i, j) in draw(st.lists(st.tuples(st.integers(0, n - 1), st.integers(0, n - 1)), max_size=2 * n)):
                if i != j:
                    gens[i] = pauli.mul(gens[i], gens[j])
            sel = draw(st.permutations(list(range(n))))[:m]
            ops = [[gens[i][1], gens[i][2]] for i in sel]
            if kind == "corrupted":
                k = draw(st.integers(0, m - 1))
                q = draw(st.integers(0, n - 1))
                which = draw(st.integers(0, 1))
                ops[k][which] ^= 1 << q
                if ops[k] == [0, 0]:
                    ops[k] = [1 << q, 0]
        # identity operators among the given ones (a list padded to n columns, or the product of dependent generators): the identity
        # lies in every group, so it changes nothing about which layers work
        pad = draw(st.sampled_from([0, 0, 0, 1, 2, 4]))
        for _ in range(min(pad, n - len(ops))):
            ops.insert(draw(st.integers(0, len(ops))), [0, 0])
            kind = kind.split("+")[0] + "+identity-padding"
        return {"n": n, "gid": gid, "ops": ops, "distribution": kind}
    return cases()


_MEMO = {}


def check_h(case):
    res = check_layer(case)
    _MEMO.clear()
    _MEMO[repr(case)] = res
    return res[0]


def classify_h(case):
    fails, info = _MEMO.get(repr(case)) or check_layer(case)
    return nontrivial(case, info), {"branch": f"{'exists' if info['exists'] else 'absent'}:{info['outcome']}",
                                    "n_m": f"n={case['n']},m={len(case['ops'])}", "distribution": case.get("distribution", "?"), "dtype": info.get("dtype", "?")}


def shard(arg):
    kind = arg[0]
    rep = fw.Report()
    libif.limit_memory(6)
    if kind == "n2":
        allops = [(x, z) for x in range(4) for z in range(4)]
        for gid in (0, 1):
            for a in allops:
                run_case(rep, {"n": 2, "gid": gid, "ops": [list(a)]}, sample=(a == (1, 2)))
                for b in allops:
                    run_case(rep, {"n": 2, "gid": gid, "ops": [list(a), list(b)]})
    elif kind == "named":
        # textbook states in uniform frames against their own graph and against the graph the tables store for their class
        _, n, seed, part, parts = arg
        from gen import named, tableinfo
        from oracle import coupling as _cp
        tab = lc.orbit_table(n)
        for i, (label, gid, w, gens, circ) in enumerate(named.named_subjects(n)):
            if i % parts != part:
                continue
            ops = [[g[1], g[2]] for g in gens]
            targets = {gid}
            for (m, name) in _cp.CONFIGS:
                if m == n:
                    k = tableinfo.class_of_orbit(n, name).get(tab[gid])
                    if k is not None and tableinfo.parsed(n, name)[k] is not None:
                        targets.add(tableinfo.parsed(n, name)[k][0])
            for t in sorted(targets):
                run_case(rep, {"n": n, "gid": t, "ops": ops}, sample=(i % 80 == 5 and t == gid))
    elif kind == "groups":
        _, n, shard_list, seed, deadline = arg
        N = 1 << (n * (n - 1) // 2)
        i = 0
        for gens, rng, meta in sweep.enum_subjects(n, shard_list, seed, "c16g"):
            if deadline and time.time() > deadline:
                rep.truncated = True
                break
            ops = [[g[1], g[2]] for g in gens]
            for gid in range(N):
                i += 1
                run_case(rep, {"n": n, "gid": gid, "ops": ops}, sample=(i % 20000 == 77))
    elif kind == "members":
        _, n, orbits, k, seed, deadline, lean = arg
        reps = members.orbit_reps(n)
        N = 1 << (n * (n - 1) // 2)
        for gens, rng, meta in sweep.member_subjects(n, orbits, k, seed, "c16m"):
            if deadline and time.time() > deadline:
                rep.truncated = True
                break
            ops = [[g[1], g[2]] for g in gens]
            o = meta["orbit"]
            targets = [members.random_lc_walk(n, o, rng), members.random_lc_walk(n, rng.choice(reps), rng)]
            if not lean:
                targets += [members.random_lc_walk(n, o, rng), rng.randrange(N)]
            for ti, gid in enumerate(targets):
                run_case(rep, {"n": n, "gid": gid, "ops": ops})
                # and a proper subset of the generators
                if not lean or ti == (meta["index"] + o) % 2:
                    sub = ops[: max(3, n - 2)]
                    run_case(rep, {"n": n, "gid": gid, "ops": sub})
    else:
        _, seed, n_examples, deadline = arg
        fw.hyp_search(strategy(), check_h, rep, seed, n_examples, classify=classify_h, deadline_ts=deadline)
    return rep


def run(ctx):
    q = ctx.quick
    dl = ctx.deadline
    args = [("n2",)] + [("named", n, ctx.seed, part, {2: 1, 3: 1, 4: 2, 5: 4, 6: 12}[n]) for n in (6, 5, 4, 3, 2) for part in range({2: 1, 3: 1, 4: 2, 5: 4, 6: 12}[n])]
    for n in ((2, 3) if q else (2, 3, 4)):
        for chunk in sweep.enum_shards(n, {2: 1, 3: 4, 4: 64}[n]):
            args.append(("groups", n, chunk, ctx.seed, dl))
    if q:
        for chunk in fw.split(members.orbit_reps(4), 4):
            args.append(("members", 4, chunk, 6, ctx.seed, dl, False))
    for n in (5, 6):
        for chunk in fw.split(members.orbit_reps(n), 8 if n == 5 else 48):
            args.append(("members", n, chunk, (2 if n == 5 else 1) if q else (8 if n == 5 else 4), ctx.seed, dl, q and n == 6))
    for i in range(16):
        args.append(("hyp", ctx.seed * 1000 + i, 100 if q else 2500, dl))
    rep = fw.run_shards(ctx, "props.c16", "shard", args)
    rep.extra["exhaustive"] = False
    rep.extra["exhaustive_part"] = ("all operator sets with m<=2 on 2 qubits; every group n<=3 against every graph" +
                                    ("" if q else "; every four-qubit group against every graph on 4 vertices"))
    return rep


def replay(case):
    return [{"key": k, "msg": m, "case": case} for k, m, e in check_layer(case)[0]]
