"""C06 -- the LC class id is a complete invariant of local-Clifford equivalence."""
import numpy as np

import framework as fw
import libif
from oracle import pauli, lc, groups
from gen import members

RULE = ("quick: EVERY stabilizer group for n = 2..5 (15 + 135 + 2295 + 75 735, enumerated as RREF bases) plus six-qubit "
        "groups generated constructively: k members of each of the 760 LC orbits (random local complementations, local "
        "Cliffords, basis change, signs) and groups of random 40-gate Clifford circuits; thorough: additionally ALL "
        "4 922 775 six-qubit groups. A case is one group (one classifier call); ~5% are presented a second time in a "
        "random generator basis with random signs. Non-trivial = group that is not the +signed canonical graph-state "
        "group of a class representative; distinct by canonical (RREF) group. Oracle: graph form + local-"
        "complementation orbit; the maps id->orbit and orbit->id must both be single-valued.")
ASSUMPTIONS = ["Van den Nest/Dehaene/De Moor: stabilizer states are LC-equivalent iff their graph forms are related by local complementations",
               "own group enumeration (count checked against prod(2^i+1))", "LC-orbit oracle self-tested"]
KCOUNT = {2: 2, 3: 5, 4: 18, 5: 93, 6: 760}
BUDGET = {"quick": 240, "thorough": 3000}


def make_stab(n, gens, with_phases=True):
    L = libif.lib()
    h = fw.h64("c06fmt", n, tuple(gens)) % 8
    if h == 0:      # one group in eight is handed over as Pauli strings, one as 64-bit matrices: the id must not depend on the format
        return L.Stabilizer(libif.paulis_to_strings(gens, n, "minimal"))
    R, S, ph = libif.paulis_to_matrices(gens, n)
    if h == 1:
        return L.Stabilizer((R.astype(np.int64), S.astype(np.int64), ph.astype(np.int64)))
    if h == 2:
        return L.Stabilizer((R.astype(np.bool_), S.astype(np.bool_), ph.astype(np.bool_)))
    return L.Stabilizer((R, S, ph)) if with_phases else L.Stabilizer((R, S))


class UnstableId(Exception):
    pass


def lib_id(n, gens):
    """the id as a user obtains it: mostly determine_lc_class(s).id(); for one group in four the class object is first printed /
    compared (str, ==) and asked twice -- the id of one object must not depend on what else was asked of it"""
    L = libif.lib()
    obj = L.lc.determine_lc_class(make_stab(n, gens))
    if fw.h64("c06use", n, tuple(gens)) % 4:
        return obj.id()
    text = str(obj)
    first = obj.id()
    same = (obj == obj)
    second = obj.id()
    if first != second or not same or str(obj) != text:
        raise UnstableId(f"class object answers id {first}, then {second} (after str / ==); str before {text!r}, after {str(obj)!r}")
    return first


class Acc:
    """per-shard accumulator of (id, orbit) pairs with one example group each"""

    def __init__(self, n, rep):
        self.n = n
        self.rep = rep
        self.pairs = {}

    def see(self, gens, source, rng=None, nontrivial=True):
        n, rep = self.n, self.rep
        rows = [[g[0], g[1], g[2]] for g in gens]
        case = {"n": n, "gens": rows, "strings": [pauli.to_str(g, n) for g in gens], "source": source}
        orbit = lc.orbit_of(gens, n)
        try:
            cid = lib_id(n, gens)
        except Exception as e:  # noqa: BLE001
            rep.fail(f"n={n}:raised:{type(e).__name__}:orbit={orbit}", case,
                     f"classifier raised {type(e).__name__}({e}) on the valid stabilizer {case['strings']}")
            rep.case((n, pauli.canonical_group(gens, n)) if nontrivial else None)
            return None
        if not isinstance(cid, (int, np.integer)) or not (0 <= cid < KCOUNT[n]):
            rep.fail(f"n={n}:range:{cid}", case, f"class id {cid} outside 0..{KCOUNT[n] - 1}")
        cid = int(cid)
        key = (cid, orbit)
        if key not in self.pairs:
            self.pairs[key] = rows
        canon = pauli.canonical_group(gens, n)
        trivial = (orbit == lc.graph_form(gens, n) and all(g[0] == 0 for g in gens)
                   and canon == pauli.canonical_group(lc.graph_state_gens(n, orbit), n))
        rep.case(None if trivial else (n, canon),
                 {"n": n, "strings": case["strings"], "source": source, "library_id": cid, "oracle_orbit": orbit}
                 if (not trivial and len(rep.samples) < 1) else None)
        rep.count("groups_per_n_and_source", f"n={n}:{source}")
        if rng is not None:
            style = rng.randrange(6)
            if style >= 4:          # the heaviest / lightest elements of the group as generators (e.g. every generator acting on every qubit)
                g2 = members.extreme_weight_basis(gens, n, rng, heavy=(style == 4))
            elif style == 0:          # the same generators in another order
                g2 = list(gens)
                rng.shuffle(g2)
            elif style == 1:        # lightly mixed: one or two row operations, then reordered
                g2 = members.random_basis_change(gens, rng, steps=rng.choice([1, 2, 3]))
                rng.shuffle(g2)
            else:                   # densely mixed
                g2 = members.random_basis_change(gens, rng, steps=3 * n)
            g2 = members.apply_signs(g2, rng.randrange(1 << n))
            rep.count("re-presentation_style", ["reordered", "lightly-mixed", "densely-mixed", "densely-mixed", "heaviest-elements", "lightest-elements"][style])
            try:
                cid2 = int(lib_id(n, g2))
            except Exception as e:  # noqa: BLE001
                cid2 = f"{type(e).__name__}"
            rep.evaluations += 1
            rep.count("re-presented", f"n={n}")
            if cid2 != cid:
                c2 = dict(case)
                c2["gens2"] = [[g[0], g[1], g[2]] for g in g2]
                c2["strings2"] = [pauli.to_str(g, n) for g in g2]
                rep.fail(f"n={n}:basis-dependence:id={cid}", c2,
                         f"same group, other generators/signs: id {cid} for {case['strings']} but {cid2} for {c2['strings2']}")
        return cid

    def finish(self):
        self.rep.extra.setdefault("pairs", [])
        for (cid, orbit), rows in self.pairs.items():
            self.rep.extra["pairs"].append([self.n, cid, orbit, rows])


def shard(arg):
    kind = arg[0]
    rep = fw.Report()
    if kind == "enum":
        _, n, shard_list, seed, deadline = arg
        acc = Acc(n, rep)
        import time
        for si, sh in enumerate(shard_list):
            if deadline and time.time() > deadline:
                rep.truncated = True
                break
            for rows in groups.enum_shard(n, (tuple(sh[0]), sh[1])):
                gens = groups.to_paulis(rows, n)
                h = fw.h64("c06", seed, n, rows)
                rng = fw.rng_for("c06r", seed, n, rows) if h % 20 == 0 else None
                acc.see(gens, "enumerated", rng)
        acc.finish()
    elif kind == "bases":
        # the id must not depend on the generating set: all bases for n <= 3, many random dense bases per group for n = 4
        _, n, shard_list, per_group, seed = arg
        import itertools
        acc = Acc(n, rep)
        for sh in shard_list:
            for rows in groups.enum_shard(n, (tuple(sh[0]), sh[1])):
                gens = groups.to_paulis(rows, n)
                ref = acc.see(gens, "enumerated")
                if ref is None:
                    continue
                if n <= 3:
                    elems = [e for e in pauli.span(gens)[1:]]
                    cands = (list(c) for c in itertools.permutations(elems, n))
                else:
                    rng = fw.rng_for("c06b", seed, n, rows)
                    cands = (members.random_basis_change(gens, rng, steps=rng.randrange(4, 6 * n)) for _ in range(per_group))
                for g2 in cands:
                    if n <= 3 and len(set(pauli.span_xz(g2))) != (1 << n):
                        continue
                    rep.evaluations += 1
                    rep.count("generating_sets_tried", f"n={n}")
                    try:
                        cid2 = int(lib_id(n, g2))
                    except Exception as e:  # noqa: BLE001
                        cid2 = type(e).__name__
                    if cid2 != ref:
                        case = {"n": n, "gens": [[g[0], g[1], g[2]] for g in gens], "gens2": [[g[0], g[1], g[2]] for g in g2],
                                "strings": [pauli.to_str(g, n) for g in gens], "strings2": [pauli.to_str(g, n) for g in g2]}
                        rep.fail(f"n={n}:basis-dependence:id={ref}", case,
                                 f"same group, other generating set: id {ref} for {case['strings']} but {cid2} for {case['strings2']}")
                        break
        acc.finish()
    elif kind == "member":
        _, n, orbits, k, seed = arg
        acc = Acc(n, rep)
        for o in orbits:
            for i in range(k):
                rng = fw.rng_for("c06m", seed, n, o, i)
                gens, _ = members.member(n, o, rng, mix=(i % 2 == 0))     # odd members keep the sparse graph-like generators
                if i % 2 == 1:
                    rng.shuffle(gens)
                acc.see(gens, "class-member" if i % 2 == 0 else "class-member(sparse, reordered)", rng if i % 4 in (0, 1) else None)
        acc.finish()
    elif kind == "circuit":
        _, n, count, seed, sid = arg
        acc = Acc(n, rep)
        for i in range(count):
            rng = fw.rng_for("c06c", seed, n, sid, i)
            ops = members.random_clifford_ops(n, rng, rng.choice([5, 10, 20, 40]))
            if i % 2 == 1:      # every other circuit starts with H everywhere and entangles heavily: near-uniform over all groups
                ops = [("h", (q_,)) for q_ in range(n)] + members.random_clifford_ops(n, rng, 60, p2=0.5)
            gens = members.group_of_circuit(n, ops)
            acc.see(gens, "random-circuit", rng if i % 8 == 0 else None)
        acc.finish()
    return rep


def check_class_objects(rep):
    """cls(id).id() == id and the representative graph lies in the orbit paired with id"""
    L = libif.lib()
    out = {}
    for n in range(2, 7):
        cls = {2: L.lc.LCClass2, 3: L.lc.LCClass3, 4: L.lc.LCClass4, 5: L.lc.LCClass5, 6: L.lc.LCClass6}[n]
        tab = lc.orbit_table(n)
        for k in range(KCOUNT[n]):
            case = {"n": n, "class_id": k}
            try:
                c = cls(k)
                back = c.id()
                a = np.asarray(c.get_graph().adjacency_matrix)
            except Exception as e:  # noqa: BLE001
                rep.fail(f"n={n}:classobj:{k}", case, f"LCClass{n}({k}) raised {type(e).__name__}: {e}")
                continue
            if back != k:
                rep.fail(f"n={n}:classobj:{k}", case, f"LCClass{n}({k}).id() = {back}")
            if a.shape != (n, n):
                rep.fail(f"n={n}:representative-shape:{k}", case, f"LCClass{n}({k}).get_graph() is a graph on {a.shape[0]} vertices, not a graph state of a {n}-qubit class")
                continue
            edges = [(i, j) for i in range(n) for j in range(i + 1, n) if a[i, j] & 1]
            out[(n, k)] = tab[lc.gid_from_edges(n, edges)]
            rep.evaluations += 1
    return out


def run(ctx):
    rep = fw.Report()
    args = []
    for n in (2, 3, 4, 5):
        sh = [[list(P), r] for (P, r) in groups.shards(n, by_first_row=(n == 5))]
        for chunk in fw.split(sh, 1 if n < 4 else (4 if n == 4 else 48)):
            args.append(("enum", n, chunk, ctx.seed, None))
    for n in (2, 3, 4):
        sh = [[list(P), r] for (P, r) in groups.shards(n, by_first_row=False)]
        for chunk in fw.split(sh, 1 if n == 2 else (8 if n == 3 else 32)):
            args.append(("bases", n, chunk, 40 if ctx.quick else 600, ctx.seed))
    reps6 = members.orbit_reps(6)
    k6 = 40 if ctx.quick else 120
    for chunk in fw.split(reps6, 48):
        args.append(("member", 6, chunk, k6, ctx.seed))
    for n in (4, 5):
        args.append(("member", n, members.orbit_reps(n), 20, ctx.seed))
    ncirc = 1200 if ctx.quick else 6000
    for sid in range(16):
        args.append(("circuit", 6, ncirc, ctx.seed, sid))
    if not ctx.quick:
        sh6 = [[list(P), r] for (P, r) in groups.shards(6, by_first_row=True)]
        for chunk in fw.split(sh6, 512):
            args.append(("enum", 6, chunk, ctx.seed, ctx.deadline))
    # long tasks first
    args.sort(key=lambda a: 0 if (a[0] == "enum" and a[1] == 6) else 1)
    rep.merge(fw.run_shards(ctx, "props.c06", "shard", args))
    rep_orbit = check_class_objects(rep)

    # ---- global analysis: bijection id <-> orbit ---------------------------------------------
    pairs = rep.extra.pop("pairs", [])
    by_id, by_orbit, example = {}, {}, {}
    for n, cid, orbit, rows in pairs:
        by_id.setdefault((n, cid), set()).add(orbit)
        by_orbit.setdefault((n, orbit), set()).add(cid)
        example.setdefault((n, cid, orbit), rows)
    for (n, cid), orbs in sorted(by_id.items()):
        if len(orbs) > 1:
            o = sorted(orbs)
            case = {"n": n, "gens": example[(n, cid, o[0])], "gens_b": example[(n, cid, o[1])]}
            rep.fail(f"n={n}:id-merges-orbits:id={cid}", case,
                     f"n={n}: class id {cid} is given to states of different LC orbits {o[:4]} (not LC-equivalent)")
    for (n, orbit), ids in sorted(by_orbit.items()):
        if len(ids) > 1:
            i = sorted(ids)
            case = {"n": n, "gens": example[(n, i[0], orbit)], "gens_b": example[(n, i[1], orbit)]}
            rep.fail(f"n={n}:orbit-split:orbit={orbit}", case,
                     f"n={n}: LC-equivalent states (orbit {orbit}) receive different class ids {i[:4]}")
    summary = {}
    for n in range(2, 7):
        ids = sorted(c for (m, c) in by_id if m == n)
        orbs = sorted(o for (m, o) in by_orbit if m == n)
        summary[str(n)] = {"ids_seen": len(ids), "orbits_seen": len(orbs)}
        full = (n <= 5) or True   # n = 6 is stratified over all 760 orbits in every tier
        if full and not rep.truncated:
            if orbs != members.orbit_reps(n) and not any(str(f.get("key", "")).startswith(f"n={n}:raised") for f in rep.failures):
                raise fw.HarnessError(f"generator did not reach every LC orbit for n={n}")
            if ids != list(range(KCOUNT[n])) and all(len(v) == 1 for v in by_orbit.values()):
                rep.fail(f"n={n}:id-set", {"n": n, "ids_seen": ids[:20]},
                         f"n={n}: ids in use are not exactly 0..{KCOUNT[n] - 1} ({len(ids)} distinct ids seen)")
        # representative graph must lie in the orbit paired with its id
        for k in range(KCOUNT[n]):
            paired = by_id.get((n, k))
            if paired and len(paired) == 1 and (n, k) in rep_orbit and rep_orbit[(n, k)] not in paired:
                rep.fail(f"n={n}:representative:{k}", {"n": n, "class_id": k},
                         f"n={n}: representative graph of class id {k} lies in orbit {rep_orbit[(n, k)]}, "
                         f"but states classified as {k} lie in orbit {sorted(paired)[0]}")
    rep.extra["id_orbit_summary"] = summary
    rep.extra["exhaustive"] = False
    rep.extra["exhaustive_part"] = ("all groups for n=2..5 enumerated in this run" +
                                    ("; all 4 922 775 six-qubit groups enumerated" if (not ctx.quick and not rep.truncated) else
                                     "; n=6 by class-stratified construction and random circuits"))
    return rep


def replay(case):
    rep = fw.Report()
    n = case["n"]
    if "class_id" in case and "gens" not in case:
        check_class_objects(rep)
        return [f for f in rep.failures if f["case"] == {"n": n, "class_id": case["class_id"]}]
    if "gens" not in case:
        return []
    fails = []
    ga = [tuple(g) for g in case["gens"]]
    oa = lc.orbit_of(ga, n)
    try:
        ia = int(lib_id(n, ga))
    except Exception as e:  # noqa: BLE001
        return [{"key": "raised", "msg": f"classifier raised {type(e).__name__}", "case": case}]
    if not (0 <= ia < KCOUNT[n]):
        fails.append({"key": "range", "msg": f"id {ia} out of range", "case": case})
    for other in ("gens_b", "gens2"):
        if other in case:
            gb = [tuple(g) for g in case[other]]
            ob = lc.orbit_of(gb, n)
            try:
                ib = int(lib_id(n, gb))
            except Exception as e:  # noqa: BLE001
                return [{"key": "raised", "msg": f"classifier raised {type(e).__name__}", "case": case}]
            if (ia == ib) != (oa == ob):
                fails.append({"key": "invariant", "case": case,
                              "msg": f"ids {ia}, {ib} but LC orbits {oa}, {ob}: same id must hold exactly for LC-equivalent states"})
    return fails
