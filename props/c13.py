"""C13 -- results are a function of the arguments only: no history or aliasing effects."""
import json
import os
import subprocess
import sys
import time

import numpy as np

import framework as fw
import libif
import c13lib
from gen import members, sweep

RULE = ("catalogue of ~450 API calls as plain data (the three MUB calls and the coupling graph for all 20 configurations, table "
        "lookups, preparation / readout for stabilizers in four formats, graph inputs, compression, classification, class "
        "graphs, tomography and stabilizer-measurement circuits on qubit sublists). References: 8 (thorough 16) FRESH "
        "interpreters with different PYTHONHASHSEED values and different call orders must all agree; their common value is "
        "the reference. Hypothesis RuleBasedStateMachine: rules = call any catalogue entry (arguments rebuilt, inputs "
        "snapshotted before/after), mutate any previously returned object by type (lists, nested lists, circuits, metadata, "
        "dicts, graphs, lookup records, class objects), flush either module-level cache; every history is executed in a forked child "
        "of a worker that has only imported the library (hermetic: cold start, nothing leaks between histories); at the end of every history every "
        "call whose result was mutated is issued again. Invariant: canonical result == reference after every call. A case is "
        "one history (plus one case per catalogue entry for the cross-process comparison). Non-trivial = history in which a "
        "mutation of a returned object precedes a later call of the same specification; distinct by the history.")
ASSUMPTIONS = ["results are compared in a canonical JSON form (instruction lists, strings, edge lists, numbers)",
               "cold start = state of a freshly imported library (each history runs in a fork of a process that never called the library); a different process = fresh interpreter with another hash seed",
               "histories up to 30 (quick) / 60 (thorough) steps over a finite catalogue"]
BUDGET = {"quick": 400, "thorough": 3000}
HERE = os.path.dirname(os.path.dirname(os.path.abspath(__file__)))


# ---- fresh-interpreter references -----------------------------------------------------------------

def fresh_results(specs, order, hashseed):
    env = dict(os.environ, PYTHONHASHSEED=str(hashseed), PYTHONDONTWRITEBYTECODE="1")
    r = subprocess.run([sys.executable, os.path.join(HERE, "ref_worker.py")], input=json.dumps({"specs": specs, "order": order}),
                       capture_output=True, text=True, env=env, cwd=HERE)
    if r.returncode != 0:
        raise fw.HarnessError("reference interpreter failed:\n" + r.stderr[-2000:])
    return json.loads(r.stdout)["results"]


def shard_ref(arg):
    specs, order, hashseed = arg
    rep = fw.Report()
    rep.extra["ref"] = {str(hashseed): fresh_results(specs, order, hashseed)}
    return rep


def compute_references(ctx, specs, rep, k):
    args = []
    for j in range(k):
        rng = fw.rng_for("c13order", ctx.seed, j)
        order = list(range(len(specs)))
        if j > 0:
            rng.shuffle(order)
        args.append((specs, order, 100 + 17 * j + ctx.seed))
    r = fw.run_shards(ctx, "props.c13", "shard_ref", args)
    runs = r.extra["ref"]
    seeds = sorted(runs)
    ref = {}
    for i in range(len(specs)):
        vals = [runs[s][str(i)] for s in seeds]
        base = vals[0]
        agree = all(v == base for v in vals)
        nt = ("process", json.dumps(specs[i], sort_keys=True))
        rep.case(nt, {"spec": specs[i], "interpreters": len(seeds)} if i in (0, 5) else None)
        rep.count("cross_process_calls", specs[i]["fn"])
        if not agree:
            j = next(j for j, v in enumerate(vals) if v != base)
            rep.fail(f"process-dependence:{specs[i]['fn']}", {"spec": specs[i], "kind": "process"},
                     f"{specs[i]['fn']}: fresh interpreters (hash seeds {seeds[0]} / {seeds[j]}, different call orders) return different results for {json.dumps(specs[i])[:200]}")
        if "raised" in base:
            rep.fail(f"catalogue-call-raises:{specs[i]['fn']}", {"spec": specs[i], "kind": "process"},
                     f"{specs[i]['fn']} raises {base['raised']} in a fresh interpreter for a supported request {json.dumps(specs[i])[:200]}")
        ref[i] = base if agree else None      # no common value: already reported above, the machine skips this entry
    return ref


# ---- executing a history (shared by the machine and by replay) ---------------------------------------

class HistoryRunner:
    def __init__(self, specs, ref, reset=True):
        self.specs, self.ref = specs, ref
        self.results = []      # (spec index, raw result)
        self.mutated = []      # spec indices whose result object was mutated
        self.history = []
        self.problems = []
        if reset:
            c13lib.reset_caches()

    def call(self, i, phase="call"):
        spec = self.specs[i]
        self.history.append(["call", spec])
        try:
            inp = c13lib.make_inputs(spec)
            before = c13lib.snapshot_inputs(inp)
        except Exception as e:  # noqa: BLE001   (constructing the arguments is a library call too)
            inp, before = {}, {}
            got = {"raised": type(e).__name__, "msg": str(e)[:200]}
            raw = None
        else:
            try:
                raw = c13lib.execute(spec, inp)
                got = {"ok": c13lib.canon(raw)}
            except Exception as e:  # noqa: BLE001
                raw = None
                got = {"raised": type(e).__name__, "msg": str(e)[:200]}
        after = c13lib.snapshot_inputs(inp)
        if before != after:
            which = [k for k in before if before[k] != after.get(k)]
            self.problems.append((f"input-modified:{spec['fn']}", f"{spec['fn']} modified its argument(s) {which}"))
        if self.ref[i] is not None and got != self.ref[i]:
            mutated_before = i in self.mutated or any(self.specs[j]["fn"] == spec["fn"] or True for j in self.mutated)
            kind = "after-mutation" if self.mutated else ("after-history" if len(self.history) > 1 else "first-call")
            self.problems.append((f"{kind}:{spec['fn']}",
                                  f"{spec['fn']} returns a result different from a fresh interpreter's after {len(self.history) - 1} earlier steps "
                                  f"({kind}); spec {json.dumps(spec)[:160]}; got {json.dumps(got)[:160]} expected {json.dumps(self.ref[i])[:160]}"))
        if raw is not None:
            # reading the returned object a second time (ids, strings, graphs are recomputed by query methods) must give the same
            try:
                reread = {"ok": c13lib.canon(raw)}
            except Exception as e:  # noqa: BLE001
                reread = {"raised": type(e).__name__}
            if reread != got:
                self.problems.append((f"result-changes-on-reread:{spec['fn']}",
                                      f"{spec['fn']}: the returned object answers differently when it is read a second time; spec {json.dumps(spec)[:160]}; "
                                      f"first {json.dumps(got)[:140]} second {json.dumps(reread)[:140]}"))
            # the caller goes on using ITS objects (reuses the qubit list, extends the circuit, ...): the result must not follow
            try:
                touched = c13lib.scramble_inputs(inp)
                again = {"ok": c13lib.canon(raw)}
            except Exception as e:  # noqa: BLE001
                touched, again = [], got
            if again != got:
                self.problems.append((f"result-aliases-input:{spec['fn']}",
                                      f"{spec['fn']}: the returned object changes when the caller afterwards modifies its own argument(s) {touched} "
                                      f"(result aliases an input); spec {json.dumps(spec)[:160]}"))
            self.results.append((i, raw))
        return got

    def mutate(self, k, m):
        if not self.results:
            return None
        idx = k % len(self.results)
        i, raw = self.results[idx]
        d = c13lib.mutate(raw, m)
        self.history.append(["mutate", idx, m, d])
        if d:
            self.mutated.append(i)
        return d

    def flush(self, which):
        c13lib.flush(which)
        self.history.append(["flush", which])

    def finish(self):
        for i in list(dict.fromkeys(self.mutated)):
            self.call(i, phase="recall")


def run_history(specs_by_step, ref_lookup):
    """replay helper: steps = [["call", spec], ["mutate", idx, m, desc], ["flush", which]]"""
    specs = []
    index = {}
    steps = []
    for st in specs_by_step:
        if st[0] == "call":
            key = json.dumps(st[1], sort_keys=True)
            if key not in index:
                index[key] = len(specs)
                specs.append(st[1])
            steps.append(("call", index[key]))
        else:
            steps.append(tuple(st))
    ref = ref_lookup(specs)
    hr = HistoryRunner(specs, ref)
    for st in steps:
        if st[0] == "call":
            hr.call(st[1])
        elif st[0] == "mutate":
            hr.mutate(st[1], st[2])
        else:
            hr.flush(st[1])
    return hr.problems


# ---- the state machine -----------------------------------------------------------------------------------
#
# Every generated history is EXECUTED IN A FORKED CHILD of the worker process.  The worker itself only imports the library and
# never calls it, so each history starts from the state of a freshly imported library (cold caches, wherever they are kept) and
# nothing leaks from one history to the next: examples are hermetic, shrinking is sound, and a replay in a fresh interpreter
# reproduces the failure.  The rules only record steps; the whole history is run and judged at the end of the example.

def run_steps_isolated(specs, ref, steps):
    """fork; in the child execute the steps with a HistoryRunner and report (problems with step index, executed history)"""
    import pickle
    r, w = os.pipe()
    pid = os.fork()
    if pid == 0:
        code = 0
        try:
            os.close(r)
            hr = HistoryRunner(specs, ref, reset=False)
            firsts = []
            for st in steps:
                n0 = len(hr.problems)
                if st[0] == "call":
                    hr.call(st[1])
                elif st[0] == "recall":
                    if hr.results:
                        hr.call(hr.results[st[1] % len(hr.results)][0])
                elif st[0] == "mutate":
                    hr.mutate(st[1], st[2])
                else:
                    hr.flush(st[1])
                if len(hr.problems) > n0 and not firsts:
                    firsts.append(len(hr.history))
            if not hr.problems:
                hr.finish()
            data = pickle.dumps({"problems": hr.problems, "history": hr.history, "mutated": len(hr.mutated),
                                 "first_problem_at": firsts[0] if firsts else None})
            with os.fdopen(w, "wb") as f:
                f.write(data)
        except BaseException as e:  # noqa: BLE001
            try:
                with os.fdopen(w, "wb") as f:
                    f.write(pickle.dumps({"error": f"{type(e).__name__}: {e}"}))
            except Exception:  # noqa: BLE001
                pass
            code = 3
        os._exit(code)
    os.close(w)
    with os.fdopen(r, "rb") as f:
        data = f.read()
    os.waitpid(pid, 0)
    if not data:
        raise fw.HarnessError("history child died without a report")
    out = pickle.loads(data)
    if "error" in out:
        raise fw.HarnessError("history child failed: " + out["error"])
    return out


def shard_machine(arg):
    seed, n_examples, steps, specs, ref, deadline = arg
    import warnings
    warnings.filterwarnings("ignore", category=DeprecationWarning)
    import hypothesis
    from hypothesis import settings, HealthCheck, Phase, strategies as st
    from hypothesis.stateful import RuleBasedStateMachine, rule, run_state_machine_as_test

    libif.lib()     # import only; the worker never calls into the library
    ref = {int(k): v for k, v in ref.items()}
    rep = fw.Report()
    found = {}
    # call the cheap / cache-backed functions more often than the heavy ones
    weights = []
    for i, s in enumerate(specs):
        w = 6 if s["fn"] in ("get_mubs", "get_mub_circuits", "get_mub_info", "lookup") else (2 if s["fn"] in ("prep", "readout", "compress", "prep_graph", "class_graph") else 1)
        if s["fn"] == "tomo" and s["n"] >= 5:
            w = 0 if s["n"] == 6 else 1
        weights += [i] * w

    class Machine(RuleBasedStateMachine):
        def __init__(self):
            super().__init__()
            self.steps = []
            self.done = False

        @rule(w=st.integers(0, len(weights) - 1))
        def call(self, w):
            self.steps.append(("call", weights[w]))

        @rule(k=st.integers(0, 10 ** 6), m=st.integers(0, 10 ** 4))
        def mutate(self, k, m):
            self.steps.append(("mutate", k, m))

        @rule(k=st.integers(0, 10 ** 6))
        def recall(self, k):
            self.steps.append(("recall", k))

        @rule(which=st.sampled_from(["stab", "mub", "both"]))
        def flush(self, which):
            self.steps.append(("flush", which))

        def teardown(self):
            if self.done or not self.steps:
                return
            self.done = True
            if deadline and time.time() > deadline:
                rep.truncated = True
                return
            out = run_steps_isolated(specs, ref, self.steps)
            hist = out["history"]
            muts = [h for h in hist if h[0] == "mutate" and h[3]]
            rep.evaluations += 1
            rep.count("history_length", min(len(hist) // 10 * 10, 60))
            rep.count("histories_with_mutation", bool(muts))
            rep.count("histories_with_flush", any(h[0] == "flush" for h in hist))
            if muts:
                rep.nontrivial.add(fw.h64(json.dumps(hist, sort_keys=True, default=str)))
                if len(rep.samples) < 2 and len(hist) <= 45:
                    rep.samples.append({"history": [[h[0]] + ([h[1]["fn"], h[1].get("n"), h[1].get("name")] if h[0] == "call" else list(h[1:])) for h in hist]})
            for h in hist:
                if h[0] == "call":
                    rep.count("calls_by_function", h[1]["fn"])
                elif h[0] == "mutate" and h[3]:
                    rep.count("mutations", h[3].split(":")[0][:40])
            if out["problems"]:
                cut = out["first_problem_at"] or len(hist)
                hist = hist[:cut]
                size = len(json.dumps(hist, default=str))
                for key, msg in out["problems"][:1]:
                    if key not in found or size < found[key][0]:
                        found[key] = (size, hist, msg)
                raise AssertionError(out["problems"][0][1])

    sett = settings(max_examples=n_examples, stateful_step_count=steps, deadline=None, database=None,
                    report_multiple_bugs=False, suppress_health_check=list(HealthCheck),
                    phases=[Phase.generate, Phase.shrink])
    try:
        run_state_machine_as_test(hypothesis.seed(seed)(Machine), settings=sett)
    except AssertionError:
        pass
    except fw.HarnessError:
        raise
    except Exception as e:  # noqa: BLE001
        if not found:
            raise
        rep.extra["hypothesis_exception"] = type(e).__name__
    for key, (size, hist, msg) in found.items():
        rep.fail(key, {"history": hist}, msg)
    return rep


def query_class_object(c, order):
    out = {}
    for q in order:
        try:
            if q == "id":
                out.setdefault("id", []).append(int(c.id()))
            elif q == "str":
                out.setdefault("str", []).append(str(c))
            elif q == "graph":
                out.setdefault("graph", []).append(np.asarray(c.get_graph().adjacency_matrix).astype(int).tolist())
            elif q == "eq":
                out.setdefault("eq", []).append(bool(c == c))
        except Exception as e:  # noqa: BLE001
            out.setdefault(q, []).append(f"raises {type(e).__name__}")
    return out


def shard_requery(arg):
    """LC class objects are values: every query (id, str, get_graph, ==) of one object, repeated and in any order, answers as a fresh
    object of the same class queried once.  All class ids of n = 2..6 built from the id, and one constructed member per class through
    determine_lc_class."""
    n, ids, seed = arg
    L = libif.lib()
    rep = fw.Report()
    cls = {2: L.lc.LCClass2, 3: L.lc.LCClass3, 4: L.lc.LCClass4, 5: L.lc.LCClass5, 6: L.lc.LCClass6}[n]
    reps = members.orbit_reps(n)
    for k in ids:
        makers = [("from-id", lambda: cls(k))]
        rng = fw.rng_for("c13rq", seed, n, k)
        gens, _ = members.member(n, reps[k % len(reps)], rng)
        st = sweep.make_stabilizer(n, gens, "strings+sign")
        makers.append(("determine_lc_class", lambda: L.lc.determine_lc_class(st)))
        for how, make in makers:
            case = {"requery": how, "n": n, "id": k, "seed": seed, "strings": sweep.strings(gens, n) if how != "from-id" else None}
            try:
                single = {q: query_class_object(make(), [q])[q][0] for q in ("id", "str", "graph")}
                order = [["id", "str", "eq", "graph", "id", "str", "graph"], ["graph", "id", "id", "str", "graph"], ["str", "str", "graph", "eq", "id"]][fw.h64("c13rqo", seed, n, k, how) % 3]
                multi = query_class_object(make(), order)
            except Exception as e:  # noqa: BLE001
                rep.count("requery_raised", type(e).__name__)
                continue
            rep.case(("requery", how, n, k if how == "from-id" else tuple(case["strings"])), case if k % 97 == 3 else None)
            rep.count("requery", f"{how}:n={n}")
            for q in ("id", "str", "graph"):
                if any(v != single[q] for v in multi.get(q, [])):
                    rep.fail(f"requery:{q}", case, f"n={n} class object ({how}, id {single['id']}): {q} answers {[v if q != 'graph' else '...' for v in multi[q]]} "
                             f"when queried in the order {order}, a fresh object answers {single[q] if q != 'graph' else '(another graph)'}")
                    break
    return rep


def shard(arg):
    if arg[0] == "ref":
        return shard_ref(arg[1:])
    if arg[0] == "requery":
        return shard_requery(arg[1:])
    return shard_machine(arg[1:])


def run(ctx):
    rep = fw.Report()
    specs = c13lib.build_catalogue()
    ref = compute_references(ctx, specs, rep, 8 if ctx.quick else 16)
    n_ex, steps = (20, 30) if ctx.quick else (1500, 60)
    args = [("machine", ctx.seed * 1000 + i, n_ex, steps, specs, ref, ctx.deadline) for i in range(16)]
    kc = {2: 2, 3: 5, 4: 18, 5: 93, 6: 760}
    for n in (6, 5, 4, 3, 2):
        for chunk in fw.split(list(range(kc[n])), 8 if n == 6 else 1):
            args.append(("requery", n, chunk, ctx.seed))
    rep.merge(fw.run_shards(ctx, "props.c13", "shard", args))
    rep.extra.pop("ref", None)
    rep.extra["catalogue_size"] = len(specs)
    rep.extra["exhaustive"] = False
    return rep


def replay(case):
    if "history" in case:
        def lookup(specs):
            res = fresh_results(specs, list(range(len(specs))), 4242)
            return {i: res[str(i)] for i in range(len(specs))}
        probs = run_history(case["history"], lookup)
        return [{"key": k, "msg": m, "case": case} for k, m in probs]
    if "requery" in case:
        r = shard_requery((case["n"], [case["id"]], case.get("seed", 1)))
        return [f for f in r.failures if f["case"].get("requery") == case["requery"]]
    spec = case["spec"]
    a = fresh_results([spec], [0], 11)["0"]
    b = fresh_results([spec], [0], 977)["0"]
    out = []
    if a != b:
        out.append({"key": "process-dependence", "msg": "fresh interpreters disagree", "case": case})
    if "raised" in a:
        out.append({"key": "catalogue-call-raises", "msg": f"raises {a['raised']}", "case": case})
    return out
