"""C03 -- the readout circuit diagonalises the whole stabilizer group, independently of signs."""
import time

import framework as fw
import libif
from oracle import dense, pauli, lc
from gen import members, sweep

RULE = ("quick: every group n<=4 x all configurations; n=5: 93 classes x 6 configurations x 3 constructed members; n=6: "
        "760 classes x 7 configurations x 2 members. thorough: every group n<=5 x all configurations, n=6: 760 x 7 x 6. "
        "A case is one (group presentation, configuration): get_readout_circuit is called for the drawn sign vector and "
        "once more for a different sign vector. Non-trivial = entangled class (orbit != product class); distinct by "
        "(n, connectivity, canonical group). Oracle: all 2^n signed group elements are conjugated through the returned "
        "instruction list with independent symplectic rules (X part must vanish); metamorphic: instruction list identical "
        "for any other sign vector; inverse: inverted list dense-simulated on |0..0> is a +/-1 eigenstate of every generator.")
ASSUMPTIONS = ["bitmask conjugation rules validated against dense matrices in the self-test", "dense simulator"]
BUDGET = {"quick": 400, "thorough": 3000}


def check_readout(case):
    L = libif.lib()
    n, name = case["n"], case["connectivity"]
    gens = [pauli.parse(s)[:3] for s in case["strings"]]
    fmt = case.get("format", "strings+sign")
    orbit = lc.orbit_of(gens, n)
    label = f"{case['strings']}"
    fails = []
    try:
        rc = L.sc.get_readout_circuit(sweep.make_stabilizer(n, gens, fmt), name)
    except Exception as e:  # noqa: BLE001
        return [(f"{n}/{name}/orbit={orbit}/raised:{type(e).__name__}", f"{n}-{name}: get_readout_circuit raised {type(e).__name__}({e}) for the valid stabilizer {label}", {})]
    ops = libif.ops_of(rc)
    pops = [(o[0], tuple(o[1])) for o in ops]
    try:
        for e in pauli.span(gens):
            img = pauli.propagate(e, pops)
            if img[1] != 0:
                fails.append((f"{n}/{name}/orbit={orbit}/not-diagonal",
                              f"{n}-{name}: readout circuit maps group element {pauli.to_str(e, n)} of {label} to {pauli.to_str(img, n)}, which is not a product of I and Z", {}))
                break
    except KeyError:
        raise fw.HarnessError("readout circuit contains a non-Clifford / unknown gate")
    # sign independence
    sv = case.get("other_signs")
    if sv is not None:
        g2 = members.apply_signs([(0, g[1], g[2]) for g in gens], sv)
        try:
            rc2 = L.sc.get_readout_circuit(sweep.make_stabilizer(n, g2, "strings+sign"), name)
            ops2 = [(o[0], tuple(o[1])) for o in libif.ops_of(rc2)]
            if ops2 != pops:
                fails.append((f"{n}/{name}/orbit={orbit}/sign-dependent",
                              f"{n}-{name}: readout circuit changes with the signs of the generators: {label} vs sign vector {sv:b}", {}))
        except Exception as e:  # noqa: BLE001
            fails.append((f"{n}/{name}/orbit={orbit}/raised:{type(e).__name__}", f"{n}-{name}: get_readout_circuit raised {type(e).__name__} for other signs of {label}", {}))
    # inverse prepares the state up to signs
    try:
        psi = dense.run(dense.inverse_ops(ops), n)
        for g in gens:
            ev = dense.expectation(psi, g, n)
            if abs(abs(ev) - 1) > 1e-9:
                fails.append((f"{n}/{name}/orbit={orbit}/inverse", f"{n}-{name}: inverse of the readout circuit does not prepare the state up to signs (<{pauli.to_str(g, n)}> = {ev:.3f})", {}))
                break
    except dense.UnknownGate as e:
        raise fw.HarnessError(f"cannot invert gate {e}")
    return fails


def run_subject(rep, n, name, gens, rng, meta, sample=False):
    other = rng.randrange(1 << n)
    cur = sum((g[0] << i) for i, g in enumerate(gens))
    if other == cur:
        other ^= 1
    fmts = sweep.applicable_formats(gens, n)
    case = {"n": n, "connectivity": name, "strings": sweep.strings(gens, n), "format": fmts[rng.randrange(len(fmts))], "other_signs": other}
    fails = check_readout(case)
    orbit = lc.orbit_of(gens, n)
    rep.case((n, name, pauli.canonical_group(gens, n)) if orbit != 0 else None, dict(case, **meta) if sample else None)
    rep.count("calls_per_config", f"{n}-{name}")
    rep.count("orbits_hit_n%d" % n, orbit)
    for key, msg, extra in fails:
        rep.fail(key, case, msg, **extra)


def shard(arg):
    kind = arg[0]
    rep = fw.Report()
    i = 0
    if kind == "named":
        _, n, seed, deadline, part, parts = arg
        from gen import named
        it = ((gens, fw.rng_for("c03n", seed, n, label), {"source": "named", "state": label})
              for j, (label, gid, w, gens, circ) in enumerate(named.named_subjects(n)) if j % parts == part)
    elif kind == "enum":
        _, n, shard_list, seed, deadline = arg
        it = sweep.enum_subjects(n, shard_list, seed, "c03e")
    else:
        _, n, orbits, k, seed, deadline = arg
        it = sweep.member_subjects(n, orbits, k, seed, "c03m")
    for gens, rng, meta in it:
        if deadline and time.time() > deadline:
            rep.truncated = True
            break
        if kind != "named":
            gens = members.apply_signs(gens, rng.randrange(1 << n))
        for name in sweep.configs(n):
            i += 1
            run_subject(rep, n, name, gens, rng, meta, sample=(i % 4000 == 1))
    return rep


def run(ctx):
    q = ctx.quick
    dl = ctx.deadline
    args = []
    for n in (2, 3, 4):
        for chunk in sweep.enum_shards(n, {2: 1, 3: 2, 4: 32}[n]):
            args.append(("enum", n, chunk, ctx.seed, dl))
    if q:
        for chunk in fw.split(members.orbit_reps(5), 8):
            args.append(("member", 5, chunk, 3, ctx.seed, dl))
    else:
        for chunk in sweep.enum_shards(5, 256):
            args.append(("enum", 5, chunk, ctx.seed, dl))
    for chunk in fw.split(members.orbit_reps(6), 64):
        args.append(("member", 6, chunk, 2 if q else 6, ctx.seed, dl))
    for n in range(2, 7):
        parts = {2: 1, 3: 1, 4: 2, 5: 6, 6: 16}[n]
        for part in range(parts):
            args.append(("named", n, ctx.seed, dl, part, parts))
    args.sort(key=lambda a: -a[1])
    rep = fw.run_shards(ctx, "props.c03", "shard", args)
    rep.extra["exhaustive"] = False
    rep.extra["exhaustive_part"] = "all groups n<=4 x all configurations" + ("" if q else "; all five-qubit groups x all configurations")
    rep.extra["classes_hit"] = {k[len("orbits_hit_n"):]: len(v) for k, v in rep.hist.items() if k.startswith("orbits_hit_n")}
    for k in [k for k in rep.hist if k.startswith("orbits_hit_n")]:
        del rep.hist[k]
    return rep


def replay(case):
    return [{"key": k, "msg": m, "case": case} for k, m, e in check_readout(case)]
