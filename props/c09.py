"""C09 -- MUB families are complete, index-aligned with their circuits and cost-truthful (exhaustive)."""
import framework as fw
import libif
from oracle import pauli, cost, coupling

RULE = ("exhaustive: all 20 configurations x all 2^n+1 bases x all 2^n group elements. A case is one basis of one "
        "configuration (with its circuit); non-trivial = basis whose circuit has >= 1 two-qubit gate; distinct by "
        "(n, connectivity, basis index). Oracle: strict Pauli parser, brute-force validity, span enumeration into a "
        "counter over all 4^n-1 Paulis, symplectic propagation of every group element, own gate counter / ASAP depth, "
        "and the library's own readout circuit for the cost comparison. Additionally all configurations are queried one after the other in "
        "one process in shuffled orders (cheap subset of the predicates) to expose state carried between calls.")
ASSUMPTIONS = ["bitmask Pauli algebra (self-tested against dense matrices)", "own gate counter (swap = 3)"]


def check_config(cfg, rep):
    L = libif.lib()
    n, name = cfg
    tag = f"{n}-{name}"

    def bad(kind, msg, case=None, **more):
        rep.fail(f"{tag}:{kind}", case or {"n": n, "connectivity": name}, f"MUB {tag}: {msg}", **more)

    try:
        mubs = L.mub.get_mubs(n, name)
        circs = L.mub.get_mub_circuits(n, name)
        info = L.mub.get_mub_info(n, name)
    except Exception as e:  # noqa: BLE001
        bad("raised", f"MUB API raised {type(e).__name__}: {e}")
        return
    want = (1 << n) + 1
    if len(mubs) != want or len(circs) != want:
        bad("count", f"{len(mubs)} bases and {len(circs)} circuits, expected {want} each", observed=[len(mubs), len(circs)], expected=want)
    owner = {}
    costs, depths = [], []
    m = min(len(mubs), len(circs))
    diag_matrix_hits = 0
    parsed = []
    for i in range(len(mubs)):
        case = {"n": n, "connectivity": name, "basis_index": i, "basis": list(mubs[i])}
        gens = None
        try:
            gens = []
            for s in mubs[i]:
                sg, x, z, ln = pauli.parse(s)
                if ln != n:
                    raise ValueError(f"length {ln}")
                gens.append((sg, x, z))
            if len(gens) != n:
                raise ValueError(f"{len(gens)} strings")
        except Exception as e:  # noqa: BLE001
            bad(f"basis{i}:format", f"basis {i} = {mubs[i]!r} is not a list of {n} Pauli strings on {n} qubits ({e})", case)
            parsed.append(None)
            continue
        parsed.append(gens)
        if not pauli.is_valid_stabilizer(gens, n):
            bad(f"basis{i}:invalid", f"basis {i} = {mubs[i]} is not a set of {n} commuting independent Paulis", case)
            continue
        for (x, z) in pauli.span_xz(gens):
            if x == 0 and z == 0:
                continue
            if (x, z) in owner and owner[(x, z)] != i:
                bad(f"basis{i}:overlap", f"Pauli {pauli.to_str((0, x, z), n, sign=False)} lies in the groups of bases {owner[(x, z)]} and {i}", case)
                break
            owner[(x, z)] = i
    if all(p is not None for p in parsed) and len(owner) != 4 ** n - 1 and len(mubs) == want:
        missing = [(x, z) for x in range(1 << n) for z in range(1 << n) if (x or z) and (x, z) not in owner]
        bad("incomplete", f"{len(missing)} Paulis are in no basis group, e.g. {pauli.to_str((0,) + missing[0], n, sign=False)}")
    for i in range(m):
        case = {"n": n, "connectivity": name, "basis_index": i, "basis": list(mubs[i])}
        ops = [(o[0], tuple(o[1])) for o in libif.ops_of(circs[i])]
        case["circuit"] = libif.plain_ops(ops)
        c, d = cost.twoq_count(ops), cost.twoq_depth(ops)
        costs.append(c)
        depths.append(d)
        nt = (n, name, i) if c >= 1 else None
        rep.case(nt, case if i in (1, m - 1) and n <= 3 else None)
        rep.count("bases_per_config", tag)
        if parsed[i] is None:
            continue
        try:
            elems = pauli.span(parsed[i]) if pauli.is_valid_stabilizer(parsed[i], n) else [(0, x, z) for (x, z) in pauli.span_xz(parsed[i])]
            for e in elems:
                img = pauli.propagate(e, ops)
                if img[1] != 0:
                    bad(f"basis{i}:notdiagonal", f"circuit {i} maps {pauli.to_str(e, n)} of basis {i} to {pauli.to_str(img, n)} (not Z-type)", case)
                    break
        except KeyError as e:
            raise fw.HarnessError(f"gate {e} in a MUB circuit cannot be interpreted")
        # alignment observability: circuit i must not diagonalise some other basis
        others = 0
        for j in range(m):
            if j != i and parsed[j] is not None:
                if any(pauli.propagate(g, ops)[1] != 0 for g in parsed[j]):
                    others += 1
        diag_matrix_hits += others
        # cost vs. the library's own readout circuit
        try:
            rc = L.sc.get_readout_circuit(L.Stabilizer(list(mubs[i])), name)
            rcost = cost.twoq_count([(o[0], tuple(o[1])) for o in libif.ops_of(rc)])
            if c > rcost:
                bad(f"basis{i}:cost-vs-readout", f"MUB circuit {i} has {c} two-qubit gates, get_readout_circuit needs only {rcost}", case,
                    observed=c, expected=rcost)
        except Exception as e:  # noqa: BLE001
            if pauli.is_valid_stabilizer(parsed[i], n):
                bad(f"basis{i}:readout-raised", f"get_readout_circuit raised {type(e).__name__} for basis {i}", case)
    rep.extra.setdefault("alignment_probe_pairs", 0)
    rep.extra["alignment_probe_pairs"] += diag_matrix_hits
    # info dictionary
    if costs:
        exp = {"num circuits": want, "max two-qubit count": max(costs), "max two-qubit depth": max(depths),
               "average two-qubit count": sum(costs) / want}
        for k, v in exp.items():
            if k not in info:
                bad(f"info:{k}", f"info dictionary has no key {k!r}")
            elif abs(float(info[k]) - float(v)) > 1e-9:
                bad(f"info:{k}", f"info[{k!r}] = {info[k]} but the circuits give {v}", observed=info[k], expected=v)


def light_check(cfg, rep, history):
    """cheap subset of the predicates, used for the in-process sequences over configurations"""
    L = libif.lib()
    n, name = cfg
    tag = f"{n}-{name}"
    case = {"sequence": [list(c) for c in history]}
    try:
        mubs = L.mub.get_mubs(n, name)
        circs = L.mub.get_mub_circuits(n, name)
        info = L.mub.get_mub_info(n, name)
    except Exception as e:  # noqa: BLE001
        rep.fail(f"{tag}:raised:in-sequence", case, f"MUB {tag}: API raised {type(e).__name__} after calls for {history[:-1]}")
        return
    want = (1 << n) + 1
    if len(mubs) != want or len(circs) != want:
        rep.fail(f"{tag}:count:in-sequence", case, f"MUB {tag}: {len(mubs)} bases / {len(circs)} circuits after calls for {history[:-1]}")
        return
    costs, depths = [], []
    for i in range(want):
        ops = [(o[0], tuple(o[1])) for o in libif.ops_of(circs[i])]
        costs.append(cost.twoq_count(ops))
        depths.append(cost.twoq_depth(ops))
        try:
            gens = [pauli.parse(s)[:3] for s in mubs[i]]
            if any(pauli.parse(s)[3] != n for s in mubs[i]) or any(pauli.propagate(g, ops)[1] != 0 for g in gens):
                rep.fail(f"{tag}:basis{i}:notdiagonal:in-sequence", case, f"MUB {tag}: circuit {i} does not diagonalise basis {i} = {mubs[i]} after calls for {history[:-1]}")
                break
        except Exception:  # noqa: BLE001
            rep.fail(f"{tag}:basis{i}:format:in-sequence", case, f"MUB {tag}: basis {i} = {mubs[i]!r} malformed after calls for {history[:-1]}")
            break
    exp = {"num circuits": want, "max two-qubit count": max(costs), "max two-qubit depth": max(depths), "average two-qubit count": sum(costs) / want}
    for k, v in exp.items():
        if k not in info or abs(float(info[k]) - float(v)) > 1e-9:
            rep.fail(f"{tag}:info:{k}:in-sequence", case, f"MUB {tag}: info[{k!r}] = {info.get(k)} but the circuits give {v} (after calls for {history[:-1]})")


def shard_sequence(arg):
    """all 20 configurations queried one after the other IN ONE PROCESS, in shuffled orders: state carried from one
    configuration to the next (caches keyed too coarsely) shows up here"""
    seed, passes = arg
    rep = fw.Report()
    hist = []
    for p in range(passes):
        order = list(coupling.CONFIGS)
        fw.rng_for("c09seq", seed, p).shuffle(order)
        for cfg in order:
            hist.append(cfg)
            light_check(cfg, rep, hist[-6:])
            rep.case(("seq", p, cfg, tuple(hist[-3:])) if cfg[1] != "all" else None, None)
            rep.count("in_process_sequence_steps", f"pass{p}")
    return rep


def shard(cfg):
    rep = fw.Report()
    if cfg and cfg[0] == "sequence":
        return shard_sequence(cfg[1:])
    check_config(tuple(cfg), rep)
    return rep


def run(ctx):
    args = [["sequence", ctx.seed, 2 if ctx.quick else 12]] + [list(c) for c in sorted(coupling.CONFIGS, key=lambda c: -c[0])]
    rep = fw.run_shards(ctx, "props.c09", "shard", args)
    rep.extra["exhaustive"] = True
    rep.extra["configurations"] = len(coupling.CONFIGS)
    return rep


def replay(case):
    rep = fw.Report()
    if "sequence" in case:
        hist = []
        for cfg in case["sequence"]:
            rep = fw.Report()
            hist.append(tuple(cfg))
            light_check(tuple(cfg), rep, hist)
        return rep.failures
    check_config((case["n"], case["connectivity"]), rep)
    if "basis_index" in case:
        sel = [f for f in rep.failures if f["case"].get("basis_index") == case["basis_index"]]
        return sel or [f for f in rep.failures if "basis_index" not in f["case"]]
    return rep.failures
