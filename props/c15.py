"""C15 -- group predicates agree with the mathematical definitions."""
import numpy as np

import framework as fw
import libif
from oracle import pauli, lc, groups
from gen import members, sweep

RULE = ("equivalence: ALL ordered pairs of groups for n = 2 (225) and n = 3 (18 225), each side in a drawn generator basis with "
        "drawn signs and format; Hypothesis pairs for n = 4..6 with a forced share of equal-group pairs and of pairs differing "
        "in exactly one generator; pairs on DIFFERENT numbers of qubits (A vs A(x)T, T(x)A, unrelated; 40 / 2000 per size pair) "
        "must never be reported equivalent (False or a refusal are both accepted). expansion / entanglement: every group for n <= 4 (in a drawn basis) x every qubit, constructed "
        "members of every class for n = 5, 6. A case is one predicate evaluation set (one pair, or one stabilizer with all its "
        "qubits). Non-trivial = both stabilizers in non-canonical (non-RREF) bases; for entanglement a qubit on which only some "
        "generators act and with a single Pauli type. Distinct by the generator lists. Oracle: RREF canonical form of the "
        "span, brute-force span enumeration, weight-one elements of the span.")
ASSUMPTIONS = ["own RREF canonical form and span enumeration (self-tested)", "own group enumeration"]
BUDGET = {"quick": 300, "thorough": 2400}


def mk(n, strs, fmt="strings+sign"):
    gens = [pauli.parse(s)[:3] for s in strs]
    return sweep.make_stabilizer(n, gens, fmt), gens


def check_equiv(case):
    n = case["n"]
    fails = []
    try:
        sa, ga = mk(n, case["a"], case.get("fmt_a", "strings+sign"))
        sb, gb = mk(n, case["b"], case.get("fmt_b", "matrices+phases"))
        got = bool(sa.is_equivalent_mod_phase(sb))
        got2 = bool(sb.is_equivalent_mod_phase(sa))
    except Exception as e:  # noqa: BLE001
        return [(f"equiv/raised:{type(e).__name__}", f"is_equivalent_mod_phase raised {type(e).__name__}({e}) for {case['a']} vs {case['b']}", {})]
    want = pauli.canonical_group(ga, n) == pauli.canonical_group(gb, n)
    if got != want or got2 != want:
        fails.append((f"equiv/{'false-negative' if want else 'false-positive'}",
                      f"is_equivalent_mod_phase = {got}/{got2} for {case['a']} vs {case['b']}, which generate {'the same' if want else 'different'} groups up to signs",
                      {"observed": got, "expected": want}))
    return fails


def check_single(case):
    n = case["n"]
    fails = []
    try:
        st, gens = mk(n, case["strings"], case.get("fmt", "strings+sign"))
    except Exception as e:  # noqa: BLE001
        return [(f"ctor/raised:{type(e).__name__}", f"Stabilizer() raised {type(e).__name__}({e}) for the valid stabilizer {case['strings']}", {})]
    span = pauli.span_xz(gens)
    # expansion
    try:
        X, Z = st.expand()
        X, Z = np.asarray(X), np.asarray(Z)
        if X.shape != (n, 1 << n) or Z.shape != (n, 1 << n):
            fails.append(("expand/shape", f"expand() shapes {X.shape}, {Z.shape} for {case['strings']}", {}))
        else:
            cols = []
            for c in range(1 << n):
                x = sum((int(X[i, c]) & 1) << i for i in range(n))
                z = sum((int(Z[i, c]) & 1) << i for i in range(n))
                cols.append((x, z))
            if len(set(cols)) != (1 << n):
                fails.append(("expand/duplicates", f"expand() lists only {len(set(cols))} distinct elements of the 2^{n} for {case['strings']}", {}))
            elif set(cols) != set(span):
                fails.append(("expand/span", f"expand() does not list the span of {case['strings']}", {}))
    except Exception as e:  # noqa: BLE001
        fails.append((f"expand/raised:{type(e).__name__}", f"expand() raised {type(e).__name__} for {case['strings']}", {}))
    # entanglement
    for q in range(n):
        w1 = any((x | z) == (1 << q) for (x, z) in span)
        try:
            got = bool(st.is_qubit_entangled(q))
        except Exception as e:  # noqa: BLE001
            fails.append((f"entangled/raised:{type(e).__name__}", f"is_qubit_entangled({q}) raised {type(e).__name__} for {case['strings']}", {}))
            continue
        if got != (not w1):
            fails.append((f"entangled/{'false-positive' if got else 'false-negative'}",
                          f"is_qubit_entangled({q}) = {got} for {case['strings']}, but the group {'contains' if w1 else 'contains no'} single-qubit operator on qubit {q}",
                          {"observed": got, "expected": not w1}))
    return fails


def check_mixed(case):
    """stabilizers on DIFFERENT numbers of qubits never generate the same group: the test must not say True (False, or a refusal by
    exception, are both fine)"""
    na, nb = case["na"], case["nb"]
    out = []
    sa, _ = mk(na, case["a"], case.get("fmt_a", "strings+sign"))
    sb, _ = mk(nb, case["b"], case.get("fmt_b", "matrices+phases"))
    for lab, x, y in (("small.is_equivalent(large)", sa, sb), ("large.is_equivalent(small)", sb, sa)):
        try:
            got = bool(x.is_equivalent_mod_phase(y))
        except Exception:  # noqa: BLE001
            got = None
        if got is True:
            out.append(("equiv/false-positive-mixed-size", f"is_equivalent_mod_phase = True ({lab}) for {case['a']} ({na} qubits) vs {case['b']} ({nb} qubits), "
                        f"relation {case.get('relation')}", {"observed": True, "expected": False}))
            break
    return out


def check_case(case):
    if case["kind"] == "equiv-mixed":
        return check_mixed(case)
    return check_equiv(case) if case["kind"] == "equiv" else check_single(case)


def noncanonical(gens, n):
    return sorted(pauli.vec(g, n) for g in gens) != list(pauli.canonical_group(gens, n))


def classify(case):
    if case["kind"] == "equiv-mixed":
        return ("m", tuple(case["a"]), tuple(case["b"])), {"kind": "equiv-mixed", "mixed": f"{case['na']}-vs-{case['nb']}:{case.get('relation')}"}
    n = case["n"]
    if case["kind"] == "equiv":
        ga = [pauli.parse(s)[:3] for s in case["a"]]
        gb = [pauli.parse(s)[:3] for s in case["b"]]
        same = pauli.canonical_group(ga, n) == pauli.canonical_group(gb, n)
        nt = ("e", tuple(case["a"]), tuple(case["b"])) if (noncanonical(ga, n) and noncanonical(gb, n)) else None
        return nt, {"equiv_truth": f"n={n}:{'same' if same else 'different'}", "kind": "equiv"}
    gens = [pauli.parse(s)[:3] for s in case["strings"]]
    interesting = False
    for q in range(n):
        types = {((g[1] >> q) & 1, (g[2] >> q) & 1) for g in gens} - {(0, 0)}
        acting = sum(1 for g in gens if ((g[1] | g[2]) >> q) & 1)
        if len(types) == 1 and 1 <= acting < n:
            interesting = True
    return (("s", tuple(case["strings"])) if interesting else None), {"kind": "single", "single_n": n}


def present(n, rows, rng):
    gens = members.random_basis_change(groups.to_paulis(rows, n), rng)
    gens = members.apply_signs(gens, rng.randrange(1 << n))
    return sweep.strings(gens, n)


def shard(arg):
    kind = arg[0]
    rep = fw.Report()
    fmts = ["strings+sign", "matrices+phases", "strings-minimal", "matrices+phases-int64", "matrices+phases-bool"]
    if kind == "pairs":
        _, n, lo, hi, seed = arg
        allg = list(groups.enum_groups(n))
        for i in range(lo, hi):
            for j in range(len(allg)):
                rng = fw.rng_for("c15p", seed, n, i, j)
                case = {"kind": "equiv", "n": n, "a": present(n, allg[i], rng), "b": present(n, allg[j], rng),
                        "fmt_a": rng.choice(fmts), "fmt_b": rng.choice(fmts)}
                nt, tabs = classify(case)
                rep.case(nt, case if (i * 7 + j) % 4001 == 0 else None)
                rep.count("equiv_truth", tabs["equiv_truth"])
                for key, msg, extra in check_equiv(case):
                    rep.fail(key, case, msg, **extra)
    elif kind == "singles":
        _, n, shard_list, seed = arg
        for gens, rng, meta in sweep.enum_subjects(n, shard_list, seed, "c15s"):
            gens = members.apply_signs(gens, rng.randrange(1 << n))
            case = {"kind": "single", "n": n, "strings": sweep.strings(gens, n), "fmt": rng.choice(fmts)}
            nt, tabs = classify(case)
            rep.case(nt, case if rng.random() < 0.001 else None)
            rep.count("single_n", n)
            for key, msg, extra in check_single(case):
                rep.fail(key, case, msg, **extra)
    elif kind == "named":
        # named textbook states (product states, GHZ, cluster states ... in uniform frames), each in several random generator bases
        _, n, k, seed = arg
        from gen import named
        for label, gid, w, gens, circ in named.named_subjects(n):
            for j in range(k):
                rng = fw.rng_for("c15n", seed, n, label, j)
                g2 = members.random_basis_change(gens, rng, steps=(0 if j == 0 else 3 * n))
                g2 = members.apply_signs(g2, rng.randrange(1 << n))
                case = {"kind": "single", "n": n, "strings": sweep.strings(g2, n), "fmt": rng.choice(fmts)}
                nt, tabs = classify(case)
                rep.case(nt, dict(case, state=label) if (j == 1 and label.startswith("empty+h")) else None)
                rep.count("single_n", f"{n}(named)")
                for key, msg, extra in check_single(case):
                    rep.fail(key, case, msg + f" [named state {label}]", **extra)
    elif kind == "mixed":
        # a stabilizer on na qubits against one on nb > na qubits that contains it on the leading / trailing qubits (A x T, T x A) or is unrelated
        _, na, nb, count, seed = arg
        ra, rt, rb = members.orbit_reps(na), (members.orbit_reps(nb - na) if nb - na >= 2 else None), members.orbit_reps(nb)
        for i in range(count):
            rng = fw.rng_for("c15x", seed, na, nb, i)
            ga, _ = members.member(na, rng.choice(ra), rng, mix=[True, "light", False][i % 3])
            if rt is not None:
                gt, _ = members.member(nb - na, rng.choice(rt), rng)
            else:
                gt = [(rng.randrange(2), *rng.choice([(1, 0), (0, 1), (1, 1)]))]
            rel = ["A(x)T", "T(x)A", "unrelated", "A(x)T"][i % 4]
            if rel == "A(x)T":
                gb = [(s, x, z) for (s, x, z) in ga] + [(s, x << na, z << na) for (s, x, z) in gt]
            elif rel == "T(x)A":
                k = nb - na
                gb = [(s, x, z) for (s, x, z) in gt] + [(s, x << k, z << k) for (s, x, z) in ga]
            else:
                gb, _ = members.member(nb, rng.choice(rb), rng)
            style = i % 5
            if style in (1, 2):
                gb = members.random_basis_change(gb, rng)
            elif style == 3:
                rng.shuffle(gb)
            gb = members.apply_signs(gb, rng.randrange(1 << nb))
            case = {"kind": "equiv-mixed", "na": na, "nb": nb, "a": sweep.strings(ga, na), "b": sweep.strings(gb, nb), "relation": rel,
                    "fmt_a": rng.choice(fmts), "fmt_b": rng.choice(fmts)}
            nt, tabs = classify(case)
            rep.case(nt, case if i == 5 else None)
            rep.count("mixed", tabs["mixed"])
            for key, msg, extra in check_mixed(case):
                rep.fail(key, case, msg, **extra)
    elif kind == "members":
        _, n, orbits, k, seed = arg
        for gens, rng, meta in sweep.member_subjects(n, orbits, k, seed, "c15m"):
            gens = members.apply_signs(gens, rng.randrange(1 << n))
            case = {"kind": "single", "n": n, "strings": sweep.strings(gens, n), "fmt": rng.choice(fmts)}
            nt, tabs = classify(case)
            rep.case(nt, None)
            rep.count("single_n", n)
            for key, msg, extra in check_single(case):
                rep.fail(key, case, msg, **extra)
    else:
        _, seed, n_examples, deadline = arg
        from hypothesis import strategies as st
        from gen import hyp

        @st.composite
        def pairs(draw):
            n = draw(st.sampled_from([4, 5, 6]))
            ga, _, _ = draw(hyp.member_gens(n))
            rel = draw(st.sampled_from(["same", "same", "one-generator", "independent", "independent", "same-basis-local-change", "same-basis-local-change"]))
            if rel in ("same", "same-basis-local-change"):
                gb = list(ga)
            elif rel == "one-generator":
                # replace one generator by another Pauli commuting with the rest: conjugate the group by a gate on one/two qubits
                ops = draw(hyp.clifford_ops(n, max_len=2, allow_macros=False))
                gb = [pauli.propagate(g, [(o[0], tuple(o[1])) for o in ops]) for g in ga]
            else:
                gb, _, _ = draw(hyp.member_gens(n))
            if rel == "same-basis-local-change":
                # the SAME generator list, changed by one or two gates only (typically one Pauli letter on one qubit),
                # then merely reordered and re-signed -- a near miss for shortcuts that compare generator lists
                ops = draw(hyp.clifford_ops(n, max_len=2, allow_macros=False))
                gb = [pauli.propagate(g, [(o[0], tuple(o[1])) for o in ops]) for g in ga]
                gb = list(draw(st.permutations(gb)))
            gb = list(gb)
            mix = [] if rel == "same-basis-local-change" else draw(st.lists(st.tuples(st.integers(0, n - 1), st.integers(0, n - 1)), max_size=3 * n))
            for (i, j) in mix:
                if i != j:
                    gb[i] = pauli.mul(gb[i], gb[j])
            sv = draw(st.integers(0, (1 << n) - 1))
            gb = members.apply_signs(gb, sv)
            return {"kind": "equiv", "n": n, "a": sweep.strings(ga, n), "b": sweep.strings(gb, n), "relation": rel,
                    "fmt_a": draw(st.sampled_from(fmts)), "fmt_b": draw(st.sampled_from(fmts))}
        fw.hyp_search(pairs(), check_case, rep, seed, n_examples, classify=classify, deadline_ts=deadline)
    return rep


def run(ctx):
    q = ctx.quick
    args = [("pairs", 2, 0, 15, ctx.seed)]
    for lo in range(0, 135, 5):
        args.append(("pairs", 3, lo, min(135, lo + 5), ctx.seed))
    for n in (2, 3, 4):
        for chunk in sweep.enum_shards(n, 1 if n < 4 else 8):
            args.append(("singles", n, chunk, ctx.seed))
    if not q:
        for chunk in sweep.enum_shards(5, 64):
            args.append(("singles", 5, chunk, ctx.seed))
    for n in (5, 6):
        for chunk in fw.split(members.orbit_reps(n), 2 if n == 5 else 16):
            args.append(("members", n, chunk, 4 if q else 100, ctx.seed))
    for n in range(2, 7):
        args.append(("named", n, 5 if q else 40, ctx.seed))
    for na in range(2, 6):
        for nb in range(na + 1, 7):
            args.append(("mixed", na, nb, 40 if q else 2000, ctx.seed))
    for i in range(16):
        args.append(("hyp", ctx.seed * 1000 + i, 80 if q else 30000, ctx.deadline))
    rep = fw.run_shards(ctx, "props.c15", "shard", args)
    rep.extra["exhaustive"] = False
    rep.extra["exhaustive_part"] = "all ordered pairs of groups for n=2,3; all groups n<=4 x all qubits" + ("" if q else "; all five-qubit groups x all qubits")
    return rep


def replay(case):
    return [{"key": k, "msg": m, "case": case} for k, m, e in check_case(case)]
