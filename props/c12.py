"""C12 -- stabilizer measurement reports the true, correctly signed expectation values."""
from fractions import Fraction

import numpy as np

import framework as fw
import libif
from oracle import dense, pauli, lc, coupling
from gen import tomo, sweep, members

RULE = ("one Hypothesis search per configuration: stabilizer (constructed member of a drawn LC class: random local "
        "complementations, local Cliffords, generator basis, signs, input format) x state (Clifford+T, rotation circuits with "
        "continuous angles, GHZ-/W-like templates; mixed states of 2..3 components by injection behind an empty preparation "
        "circuit); plus all stabilizer groups for n = 2, 3 and one constructed member of every (configuration, LC class) for n = 4..6 "
        "with a drawn state each, so every table circuit serves as a readout circuit at least once; named textbook stabilizers (graph "
        "states of named graphs with the same single-qubit Clifford on every qubit); for the same subjects also a "
        "preparation circuit that ENDS with the first 1..5 gates of the readout circuit undone in reverse order (exactly, with one CX "
        "written control<->target, or with one gate repeated) -- the junction where gate cancellation would act. The returned measurement circuit is dense-"
        "simulated, its exact outcome distribution handed to StabilizerMeasurementFitter via a duck-typed result. A case is one "
        "(stabilizer, state, configuration). Non-trivial = the state is not an eigenstate of the whole group (some |value| < "
        "1 - 1e-3) and the readout circuit maps >= 1 unsigned group element to a negative Z-type operator; distinct by "
        "(n, connectivity, generators, state). Oracle: exactly 2^n keys = unsigned span of the given generators (own "
        "enumeration), value <psi|P|psi> / Tr(rho P) by dense algebra, identity -> 1.")
ASSUMPTIONS = ["results are handed over as the duck-typed FakeResult or as a genuine qiskit.result.Result (Result.from_dict, headers with circuit names), alternating; the wanted experiment sits at index 0..2 of a job with decoy experiments of the same circuit name", "dense simulator", "own span enumeration", "mixed states injected behind an empty preparation circuit"]
BUDGET = {"quick": 400, "thorough": 3000}
TOL = 1e-9


def check_measure(case):
    L = libif.lib()
    n, name = case["n"], case["connectivity"]
    gens = [pauli.parse(s)[:3] for s in case["strings"]]
    comps = [(float(Fraction(c["w"][0], c["w"][1])), tomo.state_tensor(n, c["ops"])) for c in case["components"]]
    pure = len(comps) == 1
    rng = fw.rng_for("c12z", case.get("zero_seed", 0))
    label = f"{n}-{name} stabilizer {case['strings']}"
    fails = []
    info = {"neg_image": False, "non_eigen": False}
    try:
        prep = libif.build_circuit(n, tomo.ops_tuple(case["components"][0]["ops"])) if pure else L.QuantumCircuit(n)
        P = len(prep.data)
        stab = sweep.make_stabilizer(n, gens, case.get("format", "strings+sign"))
        qc = L.tomo.stabilizer_measurement_circuit(prep, stab, name)
        mops = tomo.measurement_ops(qc)
        if pure:
            pw = [(1.0, dense.run(mops, n))]
        else:
            pw = [(w, dense.run(mops, n, psi=psi)) for (w, psi) in comps]
        counts = tomo.rescale_counts(tomo.exact_counts(pw, n, rng), case.get("zero_seed", 0) // 2)
        result, k = tomo.job_with_decoys(counts, qc, case.get("zero_seed", 0))
        info["job"] = f"{type(result).__name__}:experiment {k}"
        fitter = L.tomo.StabilizerMeasurementFitter(result, qc) if k == 0 and case.get("zero_seed", 0) % 5 else L.tomo.StabilizerMeasurementFitter(result, qc, result_index=k)
        ev_raw = fitter.expectation_values()
    except dense.UnknownGate as e:
        raise fw.HarnessError(f"uninterpretable gate {e}")
    except Exception as e:  # noqa: BLE001
        return [(f"{n}/{name}/raised:{type(e).__name__}", f"{label}: stabilizer measurement pipeline raised {type(e).__name__}({e})", {})], info
    ev, problems = tomo.convert_expectations(ev_raw)
    for p in problems[:1]:
        fails.append((f"{n}/{name}/keys", f"{label}: {p}", {}))
    span = set(pauli.span_xz(gens))
    if set(ev) != span:
        extra = [pauli.to_str((0,) + k, n, sign=False) for k in set(ev) - span][:3]
        missing = [pauli.to_str((0,) + k, n, sign=False) for k in span - set(ev)][:3]
        fails.append((f"{n}/{name}/keys", f"{label}: reported operators are not exactly the 2^{n} group elements (foreign {extra}, missing {missing})", {}))
    rho = tomo.rho_of_mixture(comps, list(range(n)))
    ro = [(o[0], tuple(o[1])) for o in mops[P:]] if pure else [(o[0], tuple(o[1])) for o in mops]
    worst = None
    for (x, z) in span:
        v = 1.0 if (x == 0 and z == 0) else dense.rho_expectation(rho, (0, x, z), n)
        if abs(abs(v) - 1) > 1e-3:
            info["non_eigen"] = True
        try:
            if pauli.propagate((0, x, z), ro)[0] == 1:
                info["neg_image"] = True
        except KeyError:
            pass
        if (x, z) in ev and abs(ev[(x, z)] - v) > TOL:
            if worst is None or abs(ev[(x, z)] - v) > worst[1]:
                worst = ((x, z), abs(ev[(x, z)] - v), ev[(x, z)], v)
    if worst:
        k, _, got, v = worst
        kind = "sign" if abs(got + v) < TOL else "value"
        fails.append((f"{n}/{name}/expectation-{kind}", f"{label}: <{pauli.to_str((0,) + k, n, sign=False)}> reported as {got:+.6f}, true value {v:+.6f}",
                      {"observed": got, "expected": v}))
    return fails, info


def strategy(cfg):
    from hypothesis import strategies as st
    from gen import hyp

    @st.composite
    def cases(draw):
        n, name = cfg
        gens, orbit, cg = draw(hyp.member_gens(n))
        fmt = draw(st.sampled_from(sweep.applicable_formats(gens, n)))
        ncomp = draw(st.sampled_from([1, 1, 1, 2, 3]))
        weights = [draw(st.integers(1, 9)) for _ in range(ncomp)]
        comps = [{"w": [weights[k], sum(weights)], "ops": draw(tomo.state_ops_strategy(n, max_len=10))} for k in range(ncomp)]
        return {"n": n, "connectivity": name, "strings": sweep.strings(gens, n), "format": fmt, "components": comps,
                "zero_seed": draw(st.integers(0, 10 ** 6))}
    return cases()


_MEMO = {}


def check_h(case):
    res = check_measure(case)
    _MEMO.clear()
    _MEMO[repr(case)] = res
    return res[0]


def classify_h(case):
    fails, info = _MEMO.get(repr(case)) or check_measure(case)
    nt = (case["n"], case["connectivity"], tuple(case["strings"]), repr(case["components"])) if (info["neg_image"] and info["non_eigen"]) else None
    gens = [pauli.parse(s)[:3] for s in case["strings"]]
    return nt, {"config": f"{case['n']}-{case['connectivity']}", "state_kind": "pure" if len(case["components"]) == 1 else "mixed",
                "sign_weight": sum(g[0] for g in gens), "entangled_class": lc.orbit_of(gens, case["n"]) != 0,
                "result_object": info.get("job", "?")}


INV = {"h": "h", "s": "sdg", "sdg": "s", "x": "x", "y": "y", "z": "z", "cx": "cx", "cz": "cz", "swap": "swap", "id": "id"}


def junction_ops(n, name, gens, rng):
    """preparation circuit whose END meets the BEGINNING of the readout circuit: after a short generic prefix come the first k readout
    gates undone in reverse order -- exactly (gates that truly cancel at the junction), with one CX written with control and target
    exchanged (not an inverse), or with one gate repeated instead of inverted.  None if the readout has no gates."""
    import math
    L = libif.lib()
    try:
        qc0 = L.tomo.stabilizer_measurement_circuit(L.QuantumCircuit(n), sweep.make_stabilizer(n, gens, "strings+sign"), name)
        ro = [(o[0], tuple(o[1])) for o in tomo.measurement_ops(qc0)]
    except Exception:  # noqa: BLE001
        return None, None
    if not ro or any(g not in INV for g, _ in ro):
        return None, None
    k = rng.randrange(1, min(len(ro), 5) + 1)
    head = ro[:k]
    variant = rng.choice(["exact", "exact", "mirrored-cx", "repeated"])
    cx_at = [j for j, (g, _) in enumerate(ro[:10]) if g == "cx"]
    if cx_at and (variant == "mirrored-cx" or rng.random() < 0.5):      # reach the first CX of the readout whenever there is one early on
        variant = "mirrored-cx"
        k = cx_at[0] + 1
        head = ro[:k]
    tail = []
    twisted = False
    for j, (g, qs) in enumerate(head):
        if variant == "mirrored-cx" and g == "cx" and not twisted:
            tail.append(["cx", [qs[1], qs[0]]]); twisted = True
        elif variant == "repeated" and not twisted and INV[g] != g:
            tail.append([g, list(qs)]); twisted = True
        else:
            tail.append([INV[g], list(qs)])
    tail.reverse()
    ops = []
    for q in range(n):
        ops.append(["ry", [q], [rng.uniform(0, 2 * math.pi)]])
        ops.append(["rz", [q], [rng.uniform(0, 2 * math.pi)]])
    for q in range(n - 1):
        ops.append(["cx", [q, q + 1]])
        ops.append(["ry", [q + 1], [rng.uniform(0, 2 * math.pi)]])
    return ops + tail, f"{variant}{'' if twisted or variant == 'exact' else '(not applicable)'}:k={k}"


def run_junction(rep, n, name, gens, rng):
    ops, how = junction_ops(n, name, gens, rng)
    if ops is None:
        rep.count("junction", "no readout gates")
        return
    case = {"n": n, "connectivity": name, "strings": sweep.strings(gens, n), "format": "strings+sign",
            "components": [{"w": [1, 1], "ops": ops}], "zero_seed": rng.randrange(10 ** 6)}
    fails, info = check_measure(case)
    rep.case((n, name, tuple(case["strings"]), repr(ops), "junction") if info["non_eigen"] else None, dict(case, junction=how) if (n == 4 and name == "star" and len(rep.samples) < 1) else None)
    rep.count("junction", how.split(":")[0])
    rep.count("state_kind", "pure(preparation ends where the readout begins)")
    for key, msg, extra in fails:
        rep.fail(key, case, msg + f" [preparation ends with the first readout gates undone: {how}]", **extra)


def shard(arg):
    kind = arg[0]
    rep = fw.Report()
    if kind == "hyp":
        _, seed, n_examples, cfg, deadline = arg
        fw.hyp_search(strategy(tuple(cfg)), check_h, rep, seed, n_examples, classify=classify_h, deadline_ts=deadline)
    elif kind == "classes":
        # one constructed member of EVERY (configuration, LC class), so that every table circuit is used as a readout once
        _, n, orbits, k, seed, deadline = arg
        import math
        import time as _t
        for gens, rng, meta in sweep.member_subjects(n, orbits, k, seed, "c12c"):
            if deadline and _t.time() > deadline:
                rep.truncated = True
                break
            gens = members.apply_signs(gens, rng.randrange(1 << n))
            ops = []
            for q in range(n):
                ops.append(["ry", [q], [rng.uniform(0, 2 * math.pi)]])
                ops.append(["rz", [q], [rng.uniform(0, 2 * math.pi)]])
            for q in range(n - 1):
                ops.append(["cx", [q, q + 1]])
                ops.append(["ry", [q + 1], [rng.uniform(0, 2 * math.pi)]])
            for name in sweep.configs(n):
                case = {"n": n, "connectivity": name, "strings": sweep.strings(gens, n), "format": "strings+sign",
                        "components": [{"w": [1, 1], "ops": ops}], "zero_seed": rng.randrange(10 ** 6)}
                fails, info = check_measure(case)
                nt = (n, name, tuple(case["strings"]), repr(ops)) if (info["neg_image"] and info["non_eigen"]) else None
                rep.case(nt, None)
                rep.count("config", f"{n}-{name}")
                rep.count("state_kind", "pure(one member of every class x configuration)")
                for key, msg, extra in fails:
                    rep.fail(key, case, msg, **extra)
                if n <= 5 or fw.h64("c12j", seed, n, name, case["strings"]) % 2 == 0:
                    run_junction(rep, n, name, gens, rng)
    elif kind == "named":
        # named textbook states in uniform local frames (ring, line, star, complete graph ... + the same Clifford on every qubit) measured
        # on a drawn generic state: frames hsh / sh / hs always, the others by hash
        _, n, part, parts, seed, quick = arg
        import math
        from gen import named
        for i, (label, gid, w, gens, circ) in enumerate(named.named_subjects(n)):
            if i % parts != part:
                continue
            frame = label.split("+")[1]
            if quick and not (frame[:3] in ("hsh", "sh", "hs") or fw.h64("c12n", seed, n, label) % 4 == 0):
                continue
            rng = fw.rng_for("c12n", seed, n, label)
            gens = members.apply_signs(gens, rng.randrange(1 << n))
            ops = []
            for q in range(n):
                ops.append(["ry", [q], [rng.uniform(0, 2 * math.pi)]])
                ops.append(["rz", [q], [rng.uniform(0, 2 * math.pi)]])
            for q in range(n - 1):
                ops.append(["cx", [q, q + 1]])
                ops.append(["ry", [q + 1], [rng.uniform(0, 2 * math.pi)]])
            for name in sweep.configs(n):
                case = {"n": n, "connectivity": name, "strings": sweep.strings(gens, n), "format": "strings+sign",
                        "components": [{"w": [1, 1], "ops": ops}], "zero_seed": rng.randrange(10 ** 6)}
                fails, info = check_measure(case)
                rep.case((n, name, tuple(case["strings"]), repr(ops)) if info["non_eigen"] else None, None)
                rep.count("config", f"{n}-{name}")
                rep.count("state_kind", "pure(named stabilizer in a uniform frame)")
                for key, msg, extra in fails:
                    rep.fail(key, case, msg + f" [named stabilizer {label}]", **extra)
    else:
        # every group for n = 2, 3 x every configuration, with a drawn sign vector and a drawn rotation state
        _, n, shard_list, seed = arg
        import math
        for gens, rng, meta in sweep.enum_subjects(n, shard_list, seed, "c12e"):
            gens = members.apply_signs(gens, rng.randrange(1 << n))
            ops = []
            for q in range(n):
                ops.append(["ry", [q], [rng.uniform(0, 2 * math.pi)]])
                ops.append(["rz", [q], [rng.uniform(0, 2 * math.pi)]])
            for q in range(n - 1):
                ops.append(["cx", [q, q + 1]])
                ops.append(["rx", [q + 1], [rng.uniform(0, 2 * math.pi)]])
            for name in sweep.configs(n):
                case = {"n": n, "connectivity": name, "strings": sweep.strings(gens, n), "format": "strings+sign",
                        "components": [{"w": [1, 1], "ops": ops}], "zero_seed": rng.randrange(10 ** 6)}
                fails, info = check_measure(case)
                nt = (n, name, tuple(case["strings"]), repr(ops)) if (info["neg_image"] and info["non_eigen"]) else None
                rep.case(nt, None)
                rep.count("config", f"{n}-{name}")
                rep.count("state_kind", "pure(exhaustive groups)")
                for key, msg, extra in fails:
                    rep.fail(key, case, msg, **extra)
                run_junction(rep, n, name, gens, rng)
    return rep


def run(ctx):
    q = ctx.quick
    args = []
    per = {2: 40, 3: 60, 4: 60, 5: 40, 6: 30} if q else {2: 1000, 3: 2400, 4: 2400, 5: 1600, 6: 1200}
    for ci, (n, name) in enumerate(coupling.CONFIGS):
        parts = 1 if q else 4
        for part in range(parts):
            args.append(("hyp", ctx.seed * 1000 + ci * 10 + part, max(1, per[n] // parts), [n, name], ctx.deadline))
    for n in (2, 3):
        for chunk in sweep.enum_shards(n, 1 if n == 2 else 4):
            args.append(("enum", n, chunk, ctx.seed))
    for n in (4, 5, 6):
        for chunk in fw.split(members.orbit_reps(n), {4: 1, 5: 6, 6: 64}[n]):
            args.append(("classes", n, chunk, 1 if q else 8, ctx.seed, ctx.deadline))
    for n in range(2, 7):
        parts = {2: 1, 3: 1, 4: 1, 5: 2, 6: 8}[n]
        for part in range(parts):
            args.append(("named", n, part, parts, ctx.seed, q))
    args.sort(key=lambda a: 0 if (a[0] in ("classes", "named") and a[1] == 6) else 1)
    rep = fw.run_shards(ctx, "props.c12", "shard", args)
    rep.extra["exhaustive"] = False
    rep.extra["exhaustive_part"] = "every stabilizer group for n=2,3 on every configuration and one member of every (configuration, class) for n=4..6 (one drawn sign vector and state each)"
    return rep


def replay(case):
    return [{"key": k, "msg": m, "case": case} for k, m, e in check_measure(case)[0]]
