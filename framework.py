"""Runner plumbing shared by all property checks: reports, parallel shards, evidence, replays,
known findings, exit codes."""
import concurrent.futures as cf
import hashlib
import importlib
import json
import multiprocessing as mp
import os
import random
import sys
import time
import traceback

HERE = os.path.dirname(os.path.abspath(__file__))
EVIDENCE_DIR = os.environ.get("VERIF_EVIDENCE_DIR") or os.path.join(HERE, "evidence")
REPLAY_DIR = os.environ.get("VERIF_REPLAY_DIR") or os.path.join(HERE, "replays")
KNOWN_FILE = os.path.join(HERE, "KNOWN_FINDINGS.txt")
MAX_SAMPLES = 8
MAX_FAILURES_KEPT = 2000


class HarnessError(Exception):
    pass


def h64(*parts):
    """deterministic 64-bit digest of a tuple of plain data"""
    return int.from_bytes(hashlib.blake2b(repr(parts).encode(), digest_size=8).digest(), "big")


def rng_for(*parts):
    """counter-based stream: pure function of the parts (seed, property id, shard, case index ...)"""
    return random.Random("|".join(map(str, parts)))


class Report:
    def __init__(self):
        self.evaluations = 0
        self.nontrivial = set()
        self.samples = []
        self.hist = {}
        self.failures = []
        self.truncated = False
        self.extra = {}

    def count(self, table, key, k=1):
        t = self.hist.setdefault(table, {})
        key = str(key)
        t[key] = t.get(key, 0) + k

    def case(self, nontrivial_key=None, sample=None):
        self.evaluations += 1
        if nontrivial_key is not None:
            self.nontrivial.add(nontrivial_key if isinstance(nontrivial_key, int) else h64(nontrivial_key))
        if sample is not None and len(self.samples) < MAX_SAMPLES:
            self.samples.append(sample)

    def fail(self, key, case, msg, **more):
        if len(self.failures) < MAX_FAILURES_KEPT:
            d = {"key": key, "case": case, "msg": msg}
            d.update(more)
            self.failures.append(d)
        else:
            self.extra["failures_dropped"] = self.extra.get("failures_dropped", 0) + 1

    def to_dict(self):
        return {"evaluations": self.evaluations, "nontrivial": list(self.nontrivial), "samples": self.samples,
                "hist": self.hist, "failures": self.failures, "truncated": self.truncated, "extra": self.extra}

    def merge_dict(self, d, sample_stride=1):
        self.evaluations += d["evaluations"]
        self.nontrivial.update(d["nontrivial"])
        for s in d["samples"]:
            if len(self.samples) < MAX_SAMPLES:
                self.samples.append(s)
        for t, tab in d["hist"].items():
            mine = self.hist.setdefault(t, {})
            for k, v in tab.items():
                mine[k] = mine.get(k, 0) + v
        for f in d["failures"]:
            if len(self.failures) < MAX_FAILURES_KEPT:
                self.failures.append(f)
        self.truncated = self.truncated or d["truncated"]
        for k, v in d["extra"].items():
            if isinstance(v, (int, float)) and isinstance(self.extra.get(k, 0), (int, float)):
                self.extra[k] = self.extra.get(k, 0) + v
            elif isinstance(v, list):
                self.extra.setdefault(k, [])
                self.extra[k].extend(v)
            elif isinstance(v, dict):
                self.extra.setdefault(k, {})
                self.extra[k].update(v)
            else:
                self.extra[k] = v

    def merge(self, other):
        self.merge_dict(other.to_dict())


class Ctx:
    def __init__(self, pid, tier, seed, procs=None, budget_s=None):
        self.pid = pid
        self.tier = tier
        self.seed = seed
        self.procs = procs or int(os.environ.get("VERIF_PROCS", "0")) or min(16, os.cpu_count() or 1)
        self.t0 = time.time()
        self.budget_s = budget_s
        self.deadline = None if budget_s is None else self.t0 + budget_s

    @property
    def quick(self):
        return self.tier == "quick"

    def time_left(self):
        return None if self.deadline is None else self.deadline - time.time()


# --------------------------------------------------------------------------------------------
# parallel shards
# --------------------------------------------------------------------------------------------

def preload():
    """Import the library and every module of the harness up front.  Hypothesis (>= 6.13x) seeds its generators with constants
    collected from the source of all locally imported modules, so the set of imported modules must not depend on which shard a
    worker happened to run first -- otherwise generation is not a pure function of (code, VERIF_SEED)."""
    import libif
    libif.lib()
    import glob
    for pkg in ("oracle", "gen", "props"):
        for f in sorted(glob.glob(os.path.join(HERE, pkg, "*.py"))):
            name = os.path.basename(f)[:-3]
            if name != "__init__":
                importlib.import_module(f"{pkg}.{name}")
    importlib.import_module("c13lib")
    import hypothesis.stateful  # noqa: F401


def _worker_init(path, env):
    os.environ.update(env)
    for p in reversed(path):
        if p not in sys.path:
            sys.path.insert(0, p)
    preload()


def _worker_call(modname, funcname, arg):
    try:
        mod = importlib.import_module(modname)
        res = getattr(mod, funcname)(arg)
        if isinstance(res, Report):
            res = res.to_dict()
        return ("ok", res)
    except Exception:
        return ("err", traceback.format_exc())


def run_shards(ctx, modname, funcname, args, chunks_hint=None):
    """Run module.func(arg) for every arg in a spawn-based process pool and merge the Reports.
    The function must be a module-level callable returning a Report (or its dict)."""
    total = Report()
    if not args:
        return total
    procs = max(1, min(ctx.procs, len(args)))
    env = {"PYTHONHASHSEED": "0", "PYTHONDONTWRITEBYTECODE": "1", "QISKIT_PARALLEL": "FALSE",
           "RAYON_NUM_THREADS": "1", "OMP_NUM_THREADS": "1", "OPENBLAS_NUM_THREADS": "1",
           "VERIF_REPO": os.environ.get("VERIF_REPO", "/repo")}
    if procs == 1:
        preload()
        for a in args:
            st, res = _worker_call(modname, funcname, a)
            if st == "err":
                raise HarnessError("worker failed:\n" + res)
            total.merge_dict(res)
        return total
    mpctx = mp.get_context("spawn")
    with cf.ProcessPoolExecutor(max_workers=procs, mp_context=mpctx, initializer=_worker_init,
                                initargs=([HERE], env)) as ex:
        futs = [ex.submit(_worker_call, modname, funcname, a) for a in args]
        for f in cf.as_completed(futs):
            st, res = f.result()
            if st == "err":
                for g in futs:
                    g.cancel()
                raise HarnessError("worker failed:\n" + res)
            total.merge_dict(res)
    return total


def split(items, k):
    """split a list into k nearly equal interleaved chunks (interleaving balances cost)"""
    k = max(1, min(k, len(items)))
    return [items[i::k] for i in range(k)]


# --------------------------------------------------------------------------------------------
# known findings / replays / evidence
# --------------------------------------------------------------------------------------------

def load_known(pid):
    known = {}
    if not os.path.exists(KNOWN_FILE):
        return known
    with open(KNOWN_FILE) as f:
        for line in f:
            line = line.strip()
            if not line.startswith("known:"):
                continue
            parts = line[len("known:"):].split()
            kv = dict(p.split("=", 1) for p in parts[:2] if "=" in p)
            if kv.get("property") == pid and "key" in kv:
                known[kv["key"]] = " ".join(parts[2:])
    return known


def write_replay(pid, failure):
    os.makedirs(REPLAY_DIR, exist_ok=True)
    body = {"property": pid, "key": failure.get("key"), "message": failure.get("msg"), "case": failure.get("case")}
    for k in ("observed", "expected"):
        if k in failure:
            body[k] = failure[k]
    text = json.dumps(body, indent=1, sort_keys=True, default=str)
    name = f"{pid}-{hashlib.blake2b(text.encode(), digest_size=6).hexdigest()}.json"
    path = os.path.join(REPLAY_DIR, name)
    with open(path, "w") as f:
        f.write(text + "\n")
    return os.path.relpath(path, HERE)


def case_size(failure):
    try:
        return len(json.dumps(failure.get("case"), default=str))
    except Exception:
        return 1 << 30


def write_evidence(pid, ctx, report, rule, assumptions, violations, known_hits, exhaustive, extra=None):
    os.makedirs(EVIDENCE_DIR, exist_ok=True)
    cov = {
        "evaluations": int(report.evaluations),
        "distinct_nontrivial": int(len(report.nontrivial)),
        "rule": rule,
        "samples": report.samples[:MAX_SAMPLES],
        "exhaustive": bool(exhaustive) and not report.truncated,
        "histograms": report.hist,
        "truncated_by_budget": bool(report.truncated),
        "excluded_known": int(known_hits),
        "procs": ctx.procs,
    }
    for k, v in report.extra.items():
        cov[k] = v
    if extra:
        cov.update(extra)
    ev = {
        "property_id": pid,
        "tier": ctx.tier,
        "seed": int(ctx.seed),
        "level": "exploration",
        "coverage": cov,
        "assumptions": list(assumptions),
        "wall_s": round(time.time() - ctx.t0, 3),
        "violations": int(violations),
    }
    path = os.path.join(EVIDENCE_DIR, f"{pid}.json")
    tmp = path + ".tmp"
    with open(tmp, "w") as f:
        json.dump(ev, f, indent=1, default=str)
        f.write("\n")
    os.replace(tmp, path)
    return path


# --------------------------------------------------------------------------------------------
# Hypothesis driver: collect all failure buckets first, then shrink each bucket separately
# --------------------------------------------------------------------------------------------

def hyp_search(strategy, predicate, rep, seed, max_examples, classify=None, shrink=True, max_shrink_keys=3,
               deadline_ts=None):
    """predicate(case) -> list of failures [(key, msg, extra_dict)], case = plain data drawn from `strategy`.
    classify(case) -> (nontrivial_key or None, {hist table: key}) .
    Pass 1 generates max_examples cases and records every failure (no early stop, so one shallow defect does
    not hide the others).  Pass 2, per failure key, lets Hypothesis shrink to a minimal case of that key."""
    import hypothesis
    from hypothesis import given, settings, HealthCheck, Phase

    found = {}      # key -> (size, case, msg, extra)
    state = {"n": 0}

    def note_failures(case, fails):
        for key, msg, extra in fails:
            size = len(json.dumps(case, default=str))
            if key not in found or size < found[key][0]:
                found[key] = (size, case, msg, extra or {})

    base = dict(database=None, deadline=None, report_multiple_bugs=False,
                suppress_health_check=list(HealthCheck), derandomize=False)

    @hypothesis.seed(seed)
    @settings(max_examples=max_examples, phases=[Phase.generate], **base)
    @given(strategy)
    def collect(case):
        if deadline_ts is not None and time.time() > deadline_ts:
            rep.truncated = True
            return
        fails = predicate(case)
        state["n"] += 1
        state["digest"] = h64(state.get("digest", 0), json.dumps(case, sort_keys=True, default=str))
        nt, tables = classify(case) if classify else (None, {})
        rep.case(nt, case if (state["n"] % 97 == 1) else None)
        for t, k in tables.items():
            rep.count(t, k)
        if fails:
            note_failures(case, fails)

    collect()
    # digest of the generated case sequence: a pure function of (code, seed); lets two runs be compared for determinism
    rep.extra.setdefault("generation_digests", {})[str(seed)] = state.get("digest", 0)

    if shrink and found:
        for key in sorted(found, key=lambda k: found[k][0])[:max_shrink_keys]:
            class _Hit(Exception):
                pass

            @hypothesis.seed(seed)
            @settings(max_examples=max_examples, phases=[Phase.generate, Phase.shrink], **base)
            @given(strategy)
            def hunt(case, key=key):
                fails = [f for f in predicate(case) if f[0] == key]
                rep.evaluations += 1
                if fails:
                    note_failures(case, fails)
                    raise _Hit()

            try:
                hunt()
            except _Hit:
                pass
            except Exception:  # flaky / other hypothesis complaints: keep what pass 1 found
                pass
    for key, (size, case, msg, extra) in found.items():
        rep.fail(key, case, msg, **extra)
    return rep
