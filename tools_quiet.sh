#!/bin/bash
# quietness: every quick command on the current tree at several seeds, fresh processes; prints any non-zero exit / VIOLATION
cd "$(dirname "$0")"
export VERIF_EVIDENCE_DIR=/tmp/quiet_ev VERIF_REPLAY_DIR=/tmp/quiet_rp
mkdir -p $VERIF_EVIDENCE_DIR
for seed in "$@"; do
  for p in C01 C02 C03 C04 C05 C06 C07 C08 C09 C10 C11 C12 C13 C14 C15 C16 C17 C18 C19; do
    out=$(VERIF_SEED=$seed ./check.py $p --tier quick 2>&1 | grep -v KNOWN-FINDING); rc=$?
    last=$(echo "$out" | tail -1)
    echo "seed=$seed $last"
    echo "$out" | grep -q VIOLATION && echo "   !!! VIOLATION at seed $seed $p" && echo "$out" | head -5
    echo "$out" | grep -q HARNESS && echo "   !!! HARNESS ERROR at seed $seed $p" && echo "$out" | tail -20
  done
done
rm -rf /tmp/quiet_ev /tmp/quiet_rp
