"""Dense state-vector simulator written from scratch: the root of trust.

State: numpy complex tensor with one axis per qubit; axis q belongs to qubit q, index 0/1 = |0>/|1>.
Gates: literal matrices.  Circuits: lists of (name, qubits, params) in time order.
"""
import numpy as np

SQ = 1 / np.sqrt(2)
I2 = np.array([[1, 0], [0, 1]], dtype=complex)
X = np.array([[0, 1], [1, 0]], dtype=complex)
Y = np.array([[0, -1j], [1j, 0]], dtype=complex)
Z = np.array([[1, 0], [0, -1]], dtype=complex)
H = np.array([[SQ, SQ], [SQ, -SQ]], dtype=complex)
S = np.array([[1, 0], [0, 1j]], dtype=complex)
SDG = np.array([[1, 0], [0, -1j]], dtype=complex)
T = np.array([[1, 0], [0, np.exp(1j * np.pi / 4)]], dtype=complex)
TDG = T.conj().T
SX = H @ S @ H
SXDG = H @ SDG @ H

ONE = {"id": I2, "i": I2, "x": X, "y": Y, "z": Z, "h": H, "s": S, "sdg": SDG, "t": T, "tdg": TDG,
       "sx": SX, "sxdg": SXDG}


def rx(t):
    c, s = np.cos(t / 2), np.sin(t / 2)
    return np.array([[c, -1j * s], [-1j * s, c]], dtype=complex)


def ry(t):
    c, s = np.cos(t / 2), np.sin(t / 2)
    return np.array([[c, -s], [s, c]], dtype=complex)


def rz(t):
    return np.array([[np.exp(-1j * t / 2), 0], [0, np.exp(1j * t / 2)]], dtype=complex)


PARAM = {"rx": rx, "ry": ry, "rz": rz}

# two-qubit gates as tensors G[a', b', a, b] with (a, b) = (first listed qubit, second listed qubit)
CX2 = np.zeros((2, 2, 2, 2), dtype=complex)   # first = control, second = target
CZ2 = np.zeros((2, 2, 2, 2), dtype=complex)
CY2 = np.zeros((2, 2, 2, 2), dtype=complex)
SW2 = np.zeros((2, 2, 2, 2), dtype=complex)
for a in range(2):
    for b in range(2):
        CX2[a, b ^ a, a, b] = 1
        CZ2[a, b, a, b] = -1 if (a and b) else 1
        SW2[b, a, a, b] = 1
        if a == 0:
            CY2[a, b, a, b] = 1
        else:
            CY2[a, 1 - b, a, b] = 1j if b == 0 else -1j
TWO = {"cx": CX2, "cz": CZ2, "swap": SW2, "cy": CY2}

SKIP = ("barrier", "measure")


class UnknownGate(Exception):
    pass


def zero_state(n):
    psi = np.zeros((2,) * n, dtype=complex)
    psi[(0,) * n] = 1
    return psi


def apply1(psi, m, q):
    psi = np.tensordot(m, psi, axes=([1], [q]))
    return np.moveaxis(psi, 0, q)


def apply2(psi, g, a, b):
    psi = np.tensordot(g, psi, axes=([2, 3], [a, b]))
    return np.moveaxis(psi, [0, 1], [a, b])


def apply_op(psi, op):
    name, qs = op[0], op[1]
    if name in SKIP:
        return psi
    if name in ONE:
        return apply1(psi, ONE[name], qs[0])
    if name in PARAM:
        return apply1(psi, PARAM[name](op[2][0]), qs[0])
    if name in TWO:
        return apply2(psi, TWO[name], qs[0], qs[1])
    if len(op) > 3 and op[3] is not None:
        # gate outside the vocabulary: use the matrix supplied by the observation layer
        # (qiskit's to_matrix(), little-endian: first listed qubit = least significant index bit)
        m = np.asarray(op[3], dtype=complex)
        k = len(qs)
        if m.shape != (1 << k, 1 << k):
            raise UnknownGate(name)
        g = m.reshape((2,) * (2 * k))
        # qiskit index = sum_j bit_j << j  => reshaped axes are ordered most-significant first:
        # axes (out_{k-1}..out_0, in_{k-1}..in_0).  Reverse each half to get (q0..q_{k-1}).
        perm = list(range(k - 1, -1, -1)) + list(range(2 * k - 1, k - 1, -1))
        g = g.transpose(perm)
        psi = np.tensordot(g, psi, axes=(list(range(k, 2 * k)), list(qs)))
        return np.moveaxis(psi, list(range(k)), list(qs))
    raise UnknownGate(name)


def run(ops, n, psi=None):
    if psi is None:
        psi = zero_state(n)
    for op in ops:
        psi = apply_op(psi, op)
    return psi


def apply_pauli(psi, p, n):
    """Apply signed Hermitian Pauli (s, x, z) (bit q = qubit q) to the state."""
    s, x, z = p
    out = psi
    for q in range(n):
        xq, zq = (x >> q) & 1, (z >> q) & 1
        if xq and zq:
            out = apply1(out, Y, q)
        elif xq:
            out = apply1(out, X, q)
        elif zq:
            out = apply1(out, Z, q)
    return -out if s else out


def stabilised_by(psi, p, n, tol=1e-9):
    return float(np.max(np.abs(apply_pauli(psi, p, n) - psi))) < tol


def expectation(psi, p, n):
    return float(np.real(np.vdot(psi, apply_pauli(psi, p, n))))


def fidelity(a, b):
    return float(abs(np.vdot(a, b)) ** 2)


def pauli_matrix_le(p, n):
    """Matrix of the signed Pauli in qiskit's little-endian index order (qubit q = bit q of the index)."""
    s, x, z = p
    m = np.array([[1]], dtype=complex)
    for q in range(n):          # qubit 0 is the least significant => rightmost kron factor
        xq, zq = (x >> q) & 1, (z >> q) & 1
        f = Y if (xq and zq) else X if xq else Z if zq else I2
        m = np.kron(f, m)
    return -m if s else m


def flatten_le(psi):
    """Tensor (axis q = qubit q) -> vector in little-endian index order (qubit 0 least significant)."""
    n = psi.ndim
    return np.transpose(psi, list(range(n - 1, -1, -1))).reshape(-1)


def density_le(psi):
    v = flatten_le(psi)
    return np.outer(v, v.conj())


def reduced_density(psi, qubits):
    """Reduced density matrix of the listed qubits, in list order, as a tensor rho[a_0..a_{m-1}, b_0..b_{m-1}]
    where a_k / b_k are the ket / bra indices of qubits[k]."""
    n = psi.ndim
    rest = [q for q in range(n) if q not in qubits]
    t = np.transpose(psi, list(qubits) + rest).reshape((2,) * len(qubits) + (-1,))
    return np.tensordot(t, t.conj(), axes=([len(qubits)], [len(qubits)]))


def rho_expectation(rho_t, p, m):
    """Tr(rho P) for rho given as tensor rho[a_0..a_{m-1}, b_0..b_{m-1}] and Pauli p on m qubits."""
    s, x, z = p
    out = rho_t
    for q in range(m):
        xq, zq = (x >> q) & 1, (z >> q) & 1
        f = Y if (xq and zq) else X if xq else Z if zq else None
        if f is not None:
            out = np.moveaxis(np.tensordot(f, out, axes=([1], [q])), 0, q)
    tr = np.trace(out.reshape(1 << m, 1 << m))
    return float(np.real(-tr if s else tr))


def rho_matrix_le(rho_t, m):
    """Tensor rho[a_0.., b_0..] -> matrix in little-endian order (qubit k of the list = bit k)."""
    perm = list(range(m - 1, -1, -1)) + list(range(2 * m - 1, m - 1, -1))
    return np.transpose(rho_t, perm).reshape(1 << m, 1 << m)


INV_NAME = {"id": "id", "i": "i", "x": "x", "y": "y", "z": "z", "h": "h", "s": "sdg", "sdg": "s", "t": "tdg", "tdg": "t",
            "sx": "sxdg", "sxdg": "sx", "cx": "cx", "cz": "cz", "cy": "cy", "swap": "swap"}


def inverse_ops(ops):
    """instruction list of the inverse circuit (reversed order, each gate inverted)"""
    out = []
    for op in reversed(ops):
        name, qs = op[0], op[1]
        if name in SKIP:
            continue
        if name in INV_NAME:
            out.append((INV_NAME[name], qs, ()))
        elif name in PARAM:
            out.append((name, qs, (-op[2][0],)))
        elif len(op) > 3 and op[3] is not None:
            out.append((name + "_dg", qs, (), np.asarray(op[3]).conj().T))
        else:
            raise UnknownGate(name)
    return out


_SIG = np.array([I2, X, Y, Z])            # index p: 0=I, 1=X, 2=Y, 3=Z
_P_XZ = [(0, 0), (1, 0), (1, 1), (0, 1)]


def all_pauli_expectations(rho_t, m):
    """{(x, z): Tr(rho P)} for all 4^m Paulis at once (tensor contraction qubit by qubit);
    rho_t[a_0..a_{m-1}, b_0..b_{m-1}]"""
    t = rho_t
    # contract qubit 0's (a, b) pair first; after each step the new Pauli axis is appended at the end
    for k in range(m):
        # current axes: a_k..a_{m-1}, b_k..b_{m-1}, p_0..p_{k-1};  a_k is axis 0, b_k is axis (m-k)
        S = np.transpose(_SIG, (0, 2, 1))       # S[p, a, b] = sigma_p[b, a]
        t = np.tensordot(t, S, axes=([0, m - k], [1, 2]))
    t = np.real(t)
    out = {}
    for idx in np.ndindex(*t.shape):
        x = z = 0
        for q, p in enumerate(idx):
            bx, bz = _P_XZ[p]
            x |= bx << q
            z |= bz << q
        out[(x, z)] = float(t[idx])
    return out
