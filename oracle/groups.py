"""Enumeration of all stabilizer groups (maximal isotropic subspaces of F2^{2n}) exactly once.

A group is produced as its RREF basis: n integer vectors v = x | z << n (bit q of x / z = qubit q),
pivot = lowest set bit, every pivot column cleared in all other rows.  Enumeration is a depth-first
search over pivot sets and rows; the commutation constraints of a new row with the rows already chosen
are linear in its free bits and are solved by bitmask Gaussian elimination.
"""
from itertools import combinations

_PAR = bytes(bin(i).count("1") & 1 for i in range(1 << 16))


def parity(v):
    return _PAR[v & 0xFFFF] ^ _PAR[(v >> 16) & 0xFFFF] if v >> 16 else _PAR[v]


def dual(v, n):
    """Vector d with parity(d & w) = symplectic product <v, w>."""
    m = (1 << n) - 1
    return ((v >> n) & m) | ((v & m) << n)


def symp(a, b, n):
    return parity(dual(a, n) & b)


def expected_count(n):
    c = 1
    for i in range(1, n + 1):
        c *= (1 << i) + 1
    return c


def _solve(eqs, freemask):
    """Solve parity(mask & f) = rhs for f within freemask.  Returns (pivots, free_positions) with
    pivots = [(pivot_bit, mask_without_pivot, rhs)] or None if inconsistent."""
    piv = []  # (pivot_bit, full mask, rhs)
    for mask, rhs in eqs:
        mask &= freemask
        for pb, pm, pr in piv:
            if mask >> pb & 1:
                mask ^= pm
                rhs ^= pr
        if mask == 0:
            if rhs:
                return None
            continue
        pb = (mask & -mask).bit_length() - 1
        piv = [((qb, qm ^ mask, qr ^ rhs) if (qm >> pb & 1) else (qb, qm, qr)) for qb, qm, qr in piv]
        piv.append((pb, mask, rhs))
    pivbits = 0
    for pb, _, _ in piv:
        pivbits |= 1 << pb
    free = [b for b in range(freemask.bit_length()) if (freemask >> b & 1) and not (pivbits >> b & 1)]
    return [(pb, pm & ~(1 << pb), pr) for pb, pm, pr in piv], free


def _solutions(eqs, freemask):
    r = _solve(eqs, freemask)
    if r is None:
        return
    piv, free = r
    k = len(free)
    for a in range(1 << k):
        f = 0
        for j in range(k):
            if a >> j & 1:
                f |= 1 << free[j]
        v = f
        for pb, pm, pr in piv:
            if pr ^ parity(pm & f):
                v |= 1 << pb
        yield v


def pivot_sets(n):
    return list(combinations(range(2 * n), n))


def _freemask(n, P, i):
    pm = 0
    for p in P:
        pm |= 1 << p
    full = (1 << (2 * n)) - 1
    return full & ~pm & ~((1 << (P[i] + 1)) - 1)


def first_rows(n, P):
    """All admissible first rows for pivot set P (no constraint yet)."""
    fm = _freemask(n, P, 0)
    return [(1 << P[0]) | f for f in _solutions([], fm)]


def enum_from(n, P, rows):
    """Depth-first completion of the partial basis `rows` (list of vectors for pivots P[0..len-1])."""
    i = len(rows)
    if i == n:
        yield tuple(rows)
        return
    base = 1 << P[i]
    fm = _freemask(n, P, i)
    eqs = []
    for r in rows:
        d = dual(r, n)
        eqs.append((d, parity(d & base)))
    for f in _solutions(eqs, fm):
        rows.append(base | f)
        yield from enum_from(n, P, rows)
        rows.pop()


def enum_groups(n):
    for P in pivot_sets(n):
        yield from enum_from(n, P, [])


def shards(n, by_first_row=True):
    """List of shard descriptors (P, first_row or None) covering all groups exactly once."""
    out = []
    for P in pivot_sets(n):
        if by_first_row:
            for r in first_rows(n, P):
                out.append((P, r))
        else:
            out.append((P, None))
    return out


def enum_shard(n, shard):
    P, r = shard
    if r is None:
        yield from enum_from(n, P, [])
    else:
        yield from enum_from(n, P, [r])


def to_paulis(rows, n):
    m = (1 << n) - 1
    return [(0, v & m, v >> n) for v in rows]
