"""Two-qubit gate accounting: count with swap = 3, any other multi-qubit gate = 1; ASAP two-qubit
depth with the same weights (single-qubit gates are free and do not occupy a layer)."""

SKIP = ("barrier", "measure")


def weight(name):
    return 3 if name == "swap" else 1


def twoq_ops(ops):
    return [(op[0], tuple(op[1])) for op in ops if len(op[1]) >= 2 and op[0] not in SKIP]


def twoq_count(ops):
    return sum(weight(name) for name, qs in twoq_ops(ops))


def twoq_depth(ops):
    level = {}
    depth = 0
    for name, qs in twoq_ops(ops):
        start = max(level.get(q, 0) for q in qs)
        end = start + weight(name)
        for q in qs:
            level[q] = end
        depth = max(depth, end)
    return depth


def twoq_multiset(ops):
    """multiset of two-qubit instructions, as sorted list of (name, unordered pair)"""
    return sorted((name, tuple(sorted(qs))) for name, qs in twoq_ops(ops))
