"""Bitmask Pauli algebra, written from scratch (no htstabilizer, no qiskit).

A signed Hermitian Pauli on n qubits is a triple (s, x, z):
    (-1)^s * P_0 (x) P_1 (x) ... (x) P_{n-1},
with P_q = I, X, Z, Y(Hermitian) for (x_q, z_q) = (0,0), (1,0), (0,1), (1,1); bit q of the masks
belongs to qubit q.  String form: optional '+'/'-' followed by n characters, character i = qubit i.
"""
from itertools import product

PCHR = {(0, 0): "I", (1, 0): "X", (0, 1): "Z", (1, 1): "Y"}
PBIT = {"I": (0, 0), "X": (1, 0), "Z": (0, 1), "Y": (1, 1)}


def popcount(v):
    return bin(v).count("1")


def parse(string):
    """'+XYZ' / '-XYZ' / 'XYZ' -> (s, x, z, n).  Strict: only IXYZ after an optional sign."""
    s = 0
    body = string
    if body[:1] == "+":
        body = body[1:]
    elif body[:1] == "-":
        body = body[1:]
        s = 1
    x = z = 0
    for q, ch in enumerate(body):
        bx, bz = PBIT[ch]
        x |= bx << q
        z |= bz << q
    return s, x, z, len(body)


def to_str(p, n, sign=True):
    s, x, z = p
    body = "".join(PCHR[((x >> q) & 1, (z >> q) & 1)] for q in range(n))
    return (("-" if s else "+") + body) if sign else body


def commute(a, b):
    return (popcount((a[1] & b[2]) ^ (a[2] & b[1])) & 1) == 0


def mul(a, b):
    """Product of two *commuting* signed Hermitian Paulis (Hermitian again).  Raises on anticommuting."""
    s1, x1, z1 = a
    s2, x2, z2 = b
    # Hermitian (s,x,z) = (-1)^s i^{|x&z|} X^x Z^z ;  Z^z1 X^x2 = (-1)^{|z1&x2|} X^x2 Z^z1
    k = 2 * s1 + popcount(x1 & z1) + 2 * s2 + popcount(x2 & z2) + 2 * popcount(z1 & x2)
    x3, z3 = x1 ^ x2, z1 ^ z2
    k = (k - popcount(x3 & z3)) % 4
    if k & 1:
        raise ValueError("product of anticommuting Paulis is not Hermitian")
    return (k >> 1, x3, z3)


def weight(p):
    return popcount(p[1] | p[2])


# ---------------------------------------------------------------------------------------------
# Conjugation P -> G P G^dagger for the gate vocabulary.  Validated against dense matrices by the
# self-test (oracle/selftest.py) for every Pauli on the gate's qubits.
# ---------------------------------------------------------------------------------------------

def conj(p, name, qs):
    s, x, z = p
    if name in ("id", "i", "barrier", "measure"):
        return p
    if name in ("h", "s", "sdg", "x", "y", "z", "sx", "sxdg"):
        q = qs[0]
        xq, zq = (x >> q) & 1, (z >> q) & 1
        if name == "h":
            s ^= xq & zq
            if xq != zq:
                x ^= 1 << q
                z ^= 1 << q
        elif name == "s":
            s ^= xq & zq
            z ^= xq << q
        elif name == "sdg":
            s ^= xq & (zq ^ 1)
            z ^= xq << q
        elif name == "x":
            s ^= zq
        elif name == "z":
            s ^= xq
        elif name == "y":
            s ^= xq ^ zq
        elif name == "sx":      # sqrt(X) = H S H
            s ^= zq & (xq ^ 1)
            x ^= zq << q
        elif name == "sxdg":    # H Sdg H
            s ^= zq & xq
            x ^= zq << q
        return (s, x, z)
    if name == "cx":
        c, t = qs
        xc, zc, xt, zt = (x >> c) & 1, (z >> c) & 1, (x >> t) & 1, (z >> t) & 1
        s ^= xc & zt & (xt ^ zc ^ 1)
        x ^= xc << t
        z ^= zt << c
        return (s, x, z)
    if name == "cz":
        a, b = qs
        xa, za, xb, zb = (x >> a) & 1, (z >> a) & 1, (x >> b) & 1, (z >> b) & 1
        s ^= xa & xb & (za ^ zb)
        z ^= xb << a
        z ^= xa << b
        return (s, x, z)
    if name == "cy":            # cy(c,t) = sdg(t) cx(c,t) s(t) as a circuit
        c, t = qs
        return conj(conj(conj(p, "sdg", (t,)), "cx", (c, t)), "s", (t,))
    if name == "swap":
        a, b = qs
        xa, za, xb, zb = (x >> a) & 1, (z >> a) & 1, (x >> b) & 1, (z >> b) & 1
        if xa != xb:
            x ^= (1 << a) | (1 << b)
        if za != zb:
            z ^= (1 << a) | (1 << b)
        return (s, x, z)
    raise KeyError(name)


CLIFFORD_NAMES = ("id", "i", "h", "s", "sdg", "x", "y", "z", "sx", "sxdg", "cx", "cz", "cy", "swap",
                  "barrier", "measure")


def propagate(p, ops):
    """Conjugate p through a circuit given as a list of (name, qubits) in time order."""
    for name, qs in ops:
        p = conj(p, name, qs)
    return p


def span(gens, signed=True):
    """All 2^m products of the given commuting signed generators, index bit j <-> generator j."""
    out = [(0, 0, 0)]
    for g in gens:
        out = out + [mul(e, g) for e in out]
    return out


def span_xz(gens):
    """Unsigned span: set of (x, z) pairs of all products (generators need not commute)."""
    out = [(0, 0)]
    for g in gens:
        out = out + [(e[0] ^ g[1], e[1] ^ g[2]) for e in out]
    return out


# ---------------------------------------------------------------------------------------------
# GF(2) helpers on the 2n-bit vector v = x | z << n
# ---------------------------------------------------------------------------------------------

def vec(p, n):
    return p[1] | (p[2] << n)


def rref_vecs(vs):
    """RREF of a list of integer bit-vectors; pivot = lowest set bit.  Returns sorted reduced basis."""
    basis = []  # list of (pivot_bit, vector)
    for v in vs:
        for pb, b in basis:
            if v >> pb & 1:
                v ^= b
        if v:
            pb = (v & -v).bit_length() - 1
            basis = [(qb, (c ^ v) if (c >> pb & 1) else c) for qb, c in basis]
            basis.append((pb, v))
    return sorted(b for _, b in basis)


def rank_vecs(vs):
    return len(rref_vecs(vs))


def canonical_group(gens, n):
    """Canonical unsigned form of the group spanned by the generators: tuple of RREF vectors."""
    return tuple(rref_vecs([vec(g, n) for g in gens]))


def is_valid_stabilizer(gens, n):
    """n commuting independent Paulis on n qubits (brute-force definition)."""
    if len(gens) != n:
        return False
    for i in range(n):
        for j in range(i + 1, n):
            if not commute(gens[i], gens[j]):
                return False
    return len(set(span_xz(gens))) == (1 << n)


def signed_canonical(gens, n):
    """Canonical *signed* form: RREF basis with the signs of those particular elements."""
    rows = []  # (vector, pauli)
    for g in gens:
        v = vec(g, n)
        p = g
        for pb, b, bp in rows:
            if v >> pb & 1:
                v ^= b
                p = mul(p, bp)
        if v:
            pb = (v & -v).bit_length() - 1
            new = []
            for qb, c, cp in rows:
                if c >> pb & 1:
                    c ^= v
                    cp = mul(cp, p)
                new.append((qb, c, cp))
            rows = new
            rows.append((pb, v, p))
        else:
            if p[0]:
                raise ValueError("contradictory signs: -I in group")
    return tuple(sorted((c, cp[0]) for _, c, cp in rows))


def all_paulis(n):
    for x in range(1 << n):
        for z in range(1 << n):
            yield (0, x, z)
