"""Strict parser for the lookup-table text format documented in circuit_lookup.py.

stabilizer line:  <graph-id>:<cost>:<depth>:<circuit>
mub file:         header <total>:<max-cost>:<max-depth>, then lines <P1,P2,...>:<circuit>
circuit:          tokens separated by single blanks; (h|s|sdg)<q> or (cx|cz|swap)<q1>,<q2>
"""
import re

TOK1 = re.compile(r"^(h|s|sdg)(\d+)$")
TOK2 = re.compile(r"^(cx|cz|swap)(\d+),(\d+)$")


class TableError(Exception):
    pass


def parse_circuit(n, text):
    ops = []
    for tok in text.split(" "):
        if tok == "":
            continue
        m = TOK1.match(tok)
        if m:
            q = int(m.group(2))
            if q >= n:
                raise TableError(f"qubit index {q} >= {n} in token {tok!r}")
            ops.append((m.group(1), (q,)))
            continue
        m = TOK2.match(tok)
        if m:
            a, b = int(m.group(2)), int(m.group(3))
            if a >= n or b >= n:
                raise TableError(f"qubit index out of range in token {tok!r}")
            if a == b:
                raise TableError(f"two-qubit gate on one qubit in token {tok!r}")
            ops.append((m.group(1), (a, b)))
            continue
        raise TableError(f"token {tok!r} is not in the documented vocabulary")
    return ops


def parse_stabilizer_line(n, line):
    parts = line.split(":")
    if len(parts) != 4:
        raise TableError("expected 4 colon-separated fields")
    try:
        gid, cost, depth = int(parts[0]), int(parts[1]), int(parts[2])
    except ValueError:
        raise TableError("non-integer header field")
    if not (0 <= gid < (1 << (n * (n - 1) // 2))):
        raise TableError(f"graph id {gid} out of range")
    return gid, cost, depth, parse_circuit(n, parts[3])


def read_lines(path):
    with open(path, "r") as f:
        return [l for l in f.read().split("\n") if l != ""]
