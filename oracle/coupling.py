"""Coupling graphs of the 20 advertised (n, connectivity) pairs, typed in from the README figure, the
docstrings of get_preparation_circuit / get_connectivity_graph and the property text -- NOT derived
from connectivity_support.py.
"""

def _chain(n):
    return [(i, i + 1) for i in range(n - 1)]


def _all(n):
    return [(i, j) for i in range(n) for j in range(i + 1, n)]


def _star(n):
    return [(0, i) for i in range(1, n)]


EDGES = {
    (2, "all"): [(0, 1)],
    (3, "all"): _all(3),
    (3, "linear"): [(0, 1), (1, 2)],
    (4, "all"): _all(4),
    (4, "linear"): [(0, 1), (1, 2), (2, 3)],
    (4, "star"): [(0, 1), (0, 2), (0, 3)],
    (4, "cycle"): [(0, 1), (1, 2), (2, 3), (0, 3)],
    (5, "all"): _all(5),
    (5, "linear"): [(0, 1), (1, 2), (2, 3), (3, 4)],
    (5, "star"): [(0, 1), (0, 2), (0, 3), (0, 4)],
    (5, "cycle"): [(0, 1), (1, 2), (2, 3), (3, 4), (0, 4)],
    (5, "T"): [(3, 4), (0, 3), (0, 1), (0, 2)],                  # 4--3--0--{1,2}
    (5, "Q"): [(0, 1), (1, 2), (2, 3), (3, 4), (1, 4)],          # chain + (n-1, n-4)
    (6, "all"): _all(6),
    (6, "linear"): [(0, 1), (1, 2), (2, 3), (3, 4), (4, 5)],
    (6, "star"): [(0, 1), (0, 2), (0, 3), (0, 4), (0, 5)],
    (6, "ladder"): [(0, 1), (1, 2), (2, 3), (3, 4), (4, 5), (0, 5), (1, 4)],   # 6-cycle + (1,4)
    (6, "E"): [(0, 3), (0, 1), (1, 2), (2, 5), (1, 4)],          # 3-0-1-2-5 + (1,4)
    (6, "H"): [(0, 1), (1, 2), (3, 4), (4, 5), (1, 4)],          # 0-1-2, 3-4-5 + (1,4)
    (6, "Q"): [(0, 1), (1, 2), (2, 3), (3, 4), (4, 5), (2, 5)],  # chain + (n-1, n-4)
}

CONFIGS = sorted(EDGES.keys())
NAMES = ["all", "linear", "star", "cycle", "T", "Q", "ladder", "E", "H"]


def edge_set(n, name):
    return {tuple(sorted(e)) for e in EDGES[(n, name)]}


def configs_for(n):
    return [c for c in CONFIGS if c[0] == n]


def is_all(n, name):
    return name == "all"
