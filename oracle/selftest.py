"""Self-test of the oracle library.  Run before every check; failure => harness error (exit 2)."""
import random

import numpy as np

from . import dense, pauli, groups, lc, cost, coupling


class SelfTestError(Exception):
    pass


def _need(cond, msg):
    if not cond:
        raise SelfTestError(msg)


def _op_matrix(name, qs, n):
    """full 2^n x 2^n matrix (columns = images of basis states, tensor flattened C-order)"""
    dim = 1 << n
    cols = []
    for b in range(dim):
        psi = np.zeros(dim, dtype=complex)
        psi[b] = 1
        psi = psi.reshape((2,) * n)
        cols.append(dense.apply_op(psi, (name, qs, ())).reshape(-1))
    return np.array(cols).T


def _pauli_matrix(p, n):
    dim = 1 << n
    cols = []
    for b in range(dim):
        psi = np.zeros(dim, dtype=complex)
        psi[b] = 1
        cols.append(dense.apply_pauli(psi.reshape((2,) * n), p, n).reshape(-1))
    return np.array(cols).T


def test_conjugation():
    # every gate x every Pauli on its qubits (embedded in 3 qubits on scattered positions)
    n = 3
    for name in ("id", "h", "s", "sdg", "x", "y", "z", "sx", "sxdg"):
        for q in range(n):
            U = _op_matrix(name, (q,), n)
            for p in pauli.all_paulis(n):
                lhs = U @ _pauli_matrix(p, n) @ U.conj().T
                rhs = _pauli_matrix(pauli.conj(p, name, (q,)), n)
                _need(np.allclose(lhs, rhs), f"conjugation rule {name} wrong for {p}")
    for name in ("cx", "cz", "cy", "swap"):
        for a in range(n):
            for b in range(n):
                if a == b:
                    continue
                U = _op_matrix(name, (a, b), n)
                _need(np.allclose(U @ U.conj().T, np.eye(8)), f"{name} not unitary")
                for p in pauli.all_paulis(n):
                    lhs = U @ _pauli_matrix(p, n) @ U.conj().T
                    rhs = _pauli_matrix(pauli.conj(p, name, (a, b)), n)
                    _need(np.allclose(lhs, rhs), f"conjugation rule {name}{a, b} wrong for {p}")


def test_gates():
    _need(np.allclose(dense.S @ dense.S, dense.Z), "S^2 != Z")
    _need(np.allclose(dense.H @ dense.Z @ dense.H, dense.X), "HZH != X")
    _need(np.allclose(1j * dense.X @ dense.Z, dense.Y), "Y != iXZ")
    # cx: first listed = control
    psi = dense.run([("x", (0,), ()), ("cx", (0, 1), ())], 2)
    _need(abs(psi[1, 1] - 1) < 1e-12, "cx control/target convention")
    psi = dense.run([("x", (1,), ()), ("cx", (0, 1), ())], 2)
    _need(abs(psi[0, 1] - 1) < 1e-12, "cx control/target convention (2)")
    # swap = 3 cx
    for a, b in ((0, 1), (1, 0)):
        U = _op_matrix("swap", (a, b), 2)
        V = _op_matrix("cx", (a, b), 2) @ _op_matrix("cx", (b, a), 2) @ _op_matrix("cx", (a, b), 2)
        _need(np.allclose(U, V), "swap != 3 cx")
    # cx = (1 x H) cz (1 x H)
    U = _op_matrix("cx", (0, 1), 2)
    V = _op_matrix("h", (1,), 2) @ _op_matrix("cz", (0, 1), 2) @ _op_matrix("h", (1,), 2)
    _need(np.allclose(U, V), "cx != H cz H")
    # generic-matrix path (little-endian re-indexing): feed cx as a qiskit-ordered matrix
    cx_le = np.array([[1, 0, 0, 0], [0, 0, 0, 1], [0, 0, 1, 0], [0, 1, 0, 0]], dtype=complex)  # ctrl = q0 (LSB)
    for a, b in ((0, 2), (2, 0), (1, 2)):
        rng = np.random.default_rng(5)
        psi = rng.normal(size=(2, 2, 2)) + 1j * rng.normal(size=(2, 2, 2))
        w1 = dense.apply_op(psi, ("cx", (a, b), ()))
        w2 = dense.apply_op(psi, ("mystery", (a, b), (), cx_le))
        _need(np.allclose(w1, w2), "generic matrix path disagrees with cx")


def test_mul_and_span():
    n = 3
    for a in pauli.all_paulis(n):
        for b in pauli.all_paulis(n):
            A, B = _pauli_matrix(a, n), _pauli_matrix(b, n)
            com = np.allclose(A @ B, B @ A)
            _need(com == pauli.commute(a, b), "commute() wrong")
            if com:
                _need(np.allclose(A @ B, _pauli_matrix(pauli.mul(a, b), n)), "mul() wrong")
    for s in ("+XYZ", "-IZY", "XX", "-Y"):
        sg, x, z, m = pauli.parse(s)
        t = pauli.to_str((sg, x, z), m)
        _need(t.lstrip("+") == s.lstrip("+"), "parse/to_str round trip")
    sg, x, z, m = pauli.parse("-XYZI")
    _need((sg, x, z, m) == (1, 0b0011, 0b0110, 4), "string convention: char i = qubit i")


def test_groups():
    for n in (2, 3, 4):
        c = 0
        seen = set()
        for rows in groups.enum_groups(n):
            c += 1
            if n <= 3:
                ps = groups.to_paulis(rows, n)
                _need(pauli.is_valid_stabilizer(ps, n), "enumerated group invalid")
                seen.add(pauli.canonical_group(ps, n))
        _need(c == groups.expected_count(n), f"group count n={n}: {c}")
        if n <= 3:
            _need(len(seen) == c, "duplicate groups")
    _need(groups.expected_count(5) == 75735 and groups.expected_count(6) == 4922775, "count formula")


def test_lc(rng):
    want = {2: 2, 3: 5, 4: 18, 5: 93, 6: 760}
    for n in (2, 3, 4, 5):
        _need(lc.orbit_count(n) == want[n], f"orbit count n={n}")
    # codec
    _need(lc.gid_from_edges(5, [(0, 1), (0, 2), (0, 4), (1, 2), (2, 3), (2, 4)]) == 0b0110011011,
          "graph id bit layout (docstring example)")
    for n in (3, 4, 5):
        tab = lc.orbit_table(n)
        for _ in range(60):
            gid = rng.randrange(len(tab))
            gens = lc.graph_state_gens(n, gid)
            _need(lc.graph_form(gens, n) == gid or tab[lc.graph_form(gens, n)] == tab[gid], "graph form of graph state")
            # random local Clifford + basis change must stay in the orbit
            ops = []
            for q in range(n):
                for _k in range(rng.randrange(4)):
                    ops.append((rng.choice(["h", "s", "sdg"]), (q,)))
            g2 = [pauli.propagate(g, ops) for g in gens]
            for _k in range(6):
                i, j = rng.randrange(n), rng.randrange(n)
                if i != j:
                    g2[i] = pauli.mul(g2[i], g2[j])
            _need(tab[lc.graph_form(g2, n)] == tab[gid], "LC image left the orbit")
            # local complementation really is an LC operation: state check by dense simulation
        for _ in range(10):
            gid = rng.randrange(len(tab))
            adj = lc.adj_from_gid(n, gid)
            v = rng.randrange(n)
            h = lc.gid_from_adj(n, lc.local_complement(n, adj, v))
            _need(lc.gid_from_adj(n, lc.local_complement(n, lc.adj_from_gid(n, h), v)) == gid, "LC involution")
            # sqrt(-iX)_v sqrt(iZ)_{N(v)}: up to Paulis = sx on v, s on neighbours  (checked on groups)
            ops = [("sxdg", (v,))] + [("s", (u,)) for u in range(n) if adj[v] >> u & 1]
            g2 = [pauli.propagate(g, ops) for g in lc.graph_state_gens(n, gid)]
            _need(pauli.canonical_group(g2, n) == pauli.canonical_group(lc.graph_state_gens(n, h), n),
                  "local complementation is not the expected local Clifford")
    # graph state circuit prepares the graph state (dense)
    n = 4
    for gid in (0b101101, 0b111111, 0b000001):
        ops = [("h", (q,), ()) for q in range(n)] + [("cz", e, ()) for e in lc.edges_from_gid(n, gid)]
        psi = dense.run(ops, n)
        for g in lc.graph_state_gens(n, gid):
            _need(dense.stabilised_by(psi, g, n), "graph state generators")


def test_cost():
    ops = [("h", (0,)), ("cx", (0, 1)), ("cz", (2, 3)), ("swap", (1, 2)), ("cx", (0, 1)), ("barrier", (0, 1, 2))]
    _need(cost.twoq_count(ops) == 6, "count")
    _need(cost.twoq_depth(ops) == 5, "depth")
    _need(cost.twoq_depth([("cx", (0, 1)), ("cx", (2, 3))]) == 1, "parallel depth")


def test_little_endian():
    # |psi> = |q0=1, q1=0>  -> little-endian index 1
    psi = dense.run([("x", (0,), ())], 2)
    v = dense.flatten_le(psi)
    _need(abs(v[1] - 1) < 1e-12, "flatten_le")
    m = dense.pauli_matrix_le((0, 0b01, 0b10), 2)   # X on q0, Z on q1  => kron(Z, X)
    _need(np.allclose(m, np.kron(dense.Z, dense.X)), "pauli_matrix_le")
    # reduced density of entangled state
    psi = dense.run([("h", (0,), ()), ("cx", (0, 2), ()), ("x", (1,), ())], 3)
    r = dense.reduced_density(psi, [1])
    _need(np.allclose(r, [[0, 0], [0, 1]]), "reduced density (1)")
    r = dense.reduced_density(psi, [2, 0])
    _need(abs(dense.rho_expectation(r, (0, 0b11, 0), 2) - 1) < 1e-12, "reduced density XX")
    _need(abs(dense.rho_expectation(r, (0, 0, 0b01), 2)) < 1e-12, "reduced density ZI")
    rng = np.random.default_rng(7)
    phi = rng.normal(size=(2,) * 4) + 1j * rng.normal(size=(2,) * 4)
    phi /= np.linalg.norm(phi)
    r = dense.reduced_density(phi, [3, 0, 2])
    fast = dense.all_pauli_expectations(r, 3)
    for x in range(8):
        for z in range(8):
            _need(abs(fast[(x, z)] - dense.rho_expectation(r, (0, x, z), 3)) < 1e-12, "all_pauli_expectations")
            full = (0, ((x & 1) << 3) | (((x >> 1) & 1) << 0) | (((x >> 2) & 1) << 2), ((z & 1) << 3) | (((z >> 1) & 1) << 0) | (((z >> 2) & 1) << 2))
            _need(abs(fast[(x, z)] - dense.expectation(phi, full, 4)) < 1e-12, "partial trace in list order")


def test_coupling():
    _need(len(coupling.CONFIGS) == 20, "20 configurations")
    for (n, name), e in coupling.EDGES.items():
        _need(len(set(map(lambda p: tuple(sorted(p)), e))) == len(e), "duplicate edge")
        _need(all(0 <= a < n and 0 <= b < n and a != b for a, b in e), "edge out of range")


def run_all(seed=0):
    rng = random.Random(f"selftest:{seed}")
    test_gates()
    test_conjugation()
    test_mul_and_span()
    test_groups()
    test_lc(rng)
    test_cost()
    test_little_endian()
    test_coupling()
    return True
