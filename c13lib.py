"""C13 support: catalogue of API calls as plain data, execution, canonicalisation of results, mutation of
returned objects, cache control.  Used by props/c13.py (state machine) and ref_worker.py (fresh interpreters)."""
import numpy as np

import framework as fw
import libif
from oracle import pauli, lc, coupling
from gen import members, sweep

FORMATS = ["strings+sign", "strings-minimal", "matrices+phases", "matrices+phases-int64"]


def build_catalogue(seed=0):
    """deterministic list of call specifications (JSON-able dicts)"""
    cat = []
    rng = fw.rng_for("c13cat", 0)
    kcount = {2: 2, 3: 5, 4: 18, 5: 93, 6: 760}
    for (n, name) in coupling.CONFIGS:
        for fn in ("get_mubs", "get_mub_circuits", "get_mub_info", "get_connectivity_graph"):
            cat.append({"fn": fn, "n": n, "name": name})
        ids = sorted({0, kcount[n] - 1, rng.randrange(kcount[n]), rng.randrange(kcount[n])})
        for i in ids:
            cat.append({"fn": "lookup", "n": n, "name": name, "id": i})
        reps = members.orbit_reps(n)
        for j in range(4):
            o = rng.choice(reps)
            gens, info = members.member(n, o, rng)
            fmt = FORMATS[(j + n) % len(FORMATS)]
            strs = sweep.strings(gens, n)
            cat.append({"fn": "prep", "n": n, "name": name, "strings": strs, "format": fmt})
            cat.append({"fn": "readout", "n": n, "name": name, "strings": strs, "format": fmt})
            if j < 2:
                circ = [["h", [q]] for q in range(n)] + [["cz", list(e)] for e in lc.edges_from_gid(n, info["graph"])] + info["layer"]
                cat.append({"fn": "compress", "n": n, "name": name, "ops": circ, "meta": {"note": "user circuit"} if j == 1 else None})
            if j == 0:
                # public helper rotate_stabilizer_into_state(circuit, target, inplace=False): a circuit that begins with an X layer
                # (as the circuits the library hands out do after their sign repair) rotated into the same group with other signs
                xs = [q for q in range(n) if rng.random() < 0.6] or [0]
                circ0 = [["x", [q]] for q in xs] + [["h", [q]] for q in range(n)] + [["cz", list(e)] for e in lc.edges_from_gid(n, info["graph"])] + info["layer"]
                g0 = members.group_of_circuit(n, [(o[0], tuple(o[1])) for o in circ0])
                flipped = members.apply_signs(g0, rng.randrange(1, 1 << n))
                cat.append({"fn": "rotate", "n": n, "ops": circ0, "strings": sweep.strings(flipped, n), "target": "stabilizer" if n % 2 else "circuit"})
                cat.append({"fn": "classify", "n": n, "strings": strs})
                # the GF(2) helpers applied to the arrays a caller's objects own (cut ranks, kernels, validity)
                cat.append({"fn": "f2_on_stabilizer", "n": n, "strings": strs, "format": "matrices+phases"})
        # circuits without any two-qubit gate (product states; "nothing to compress") and the empty circuit
        if name in ("all", "linear", "star"):
            loc = [[rng.choice(["h", "s", "sdg", "x", "z", "y"]), [rng.randrange(n)]] for _ in range(rng.randrange(0, 2 * n))]
            cat.append({"fn": "compress", "n": n, "name": name, "ops": loc if name != "star" else [], "meta": None})
        # graph input (aliasing of the graph's adjacency matrix) and measurement circuits
        gid = rng.randrange(1 << (n * (n - 1) // 2))
        cat.append({"fn": "prep_graph", "n": n, "name": name, "gid": gid})
        N = n + rng.randrange(0, 3)
        qubits = rng.sample(range(N), n)
        prep_ops = [[g, list(q)] for g, q in members.random_clifford_ops(N, rng, 4)]
        gens, _ = members.member(n, rng.choice(reps), rng)
        meta = {"experiment": f"run-{n}-{name}", "shots": 1000} if (len(cat) % 2 == 0) else None
        cat.append({"fn": "tomo", "n": n, "name": name, "N": N, "qubits": qubits, "prep": prep_ops, "meta": meta})
        cat.append({"fn": "stabmeas", "n": n, "name": name, "N": N, "qubits": qubits, "prep": prep_ops, "strings": sweep.strings(gens, n), "meta": meta})
        if meta is not None:    # second stabilizer on the same kind of circuit: earlier results must not change
            g2, _ = members.member(n, rng.choice(reps), rng)
            cat.append({"fn": "stabmeas", "n": n, "name": name, "N": N, "qubits": qubits, "prep": prep_ops, "strings": sweep.strings(g2, n), "meta": meta})
    for n in range(2, 7):
        for i in sorted({0, kcount[n] - 1, rng.randrange(kcount[n]), rng.randrange(kcount[n]), rng.randrange(kcount[n])}):
            cat.append({"fn": "class_graph", "n": n, "id": i})
    # complete tomography round trips (circuits + fitter) on exact statistics of a fixed state: n <= 4, all configurations
    for (n, name) in coupling.CONFIGS:
        if n <= 4:
            ops = []
            for q in range(n):
                ops.append(["ry", [q], [0.4 + 0.37 * q]])
                ops.append(["rz", [q], [1.1 + 0.23 * q]])
            for q in range(n - 1):
                ops.append(["cx", [q, q + 1]])
                ops.append(["rx", [q + 1], [0.9 - 0.11 * q]])
            cat.append({"fn": "tomo_fit", "n": n, "name": name, "state": ops})
    cat.append({"fn": "available"})
    return cat


# ---- execution -------------------------------------------------------------------------------

def make_inputs(spec):
    """rebuild the argument objects from the spec (fresh each time)"""
    L = libif.lib()
    fn = spec["fn"]
    inp = {}
    if fn == "rotate":
        n = spec["n"]
        inp["circuit"] = libif.build_circuit(n, [(o[0], tuple(o[1])) for o in spec["ops"]])
        gens = [pauli.parse(s)[:3] for s in spec["strings"]]
        inp["stab"] = sweep.make_stabilizer(n, gens, "strings+sign")
        if spec.get("target") == "circuit":
            inp["target_circuit"] = L.sc.get_preparation_circuit(inp["stab"], "all")
    if fn in ("prep", "readout", "classify", "stabmeas", "f2_on_stabilizer"):
        n = spec["n"]
        gens = [pauli.parse(s)[:3] for s in spec["strings"]]
        inp["stab"] = sweep.make_stabilizer(n, gens, spec.get("format", "strings+sign"))
    if fn == "prep_graph":
        n = spec["n"]
        a = np.zeros((n, n), dtype=np.int8)
        for (i, j) in lc.edges_from_gid(n, spec["gid"]):
            a[i, j] = a[j, i] = 1
        inp["graph"] = L.Graph(a)
        inp["stab"] = L.Stabilizer(inp["graph"])
    if fn == "compress":
        inp["circuit"] = libif.build_circuit(spec["n"], [(o[0], tuple(o[1])) for o in spec["ops"]], metadata=spec.get("meta"))
    if fn in ("tomo", "stabmeas"):
        inp["circuit"] = libif.build_circuit(spec["N"], [(o[0], tuple(o[1])) for o in spec["prep"]], metadata=spec.get("meta"))
        inp["qubits"] = list(spec["qubits"])
    return inp


def snapshot_inputs(inp):
    out = {}
    if "stab" in inp:
        s = inp["stab"]
        out["stab"] = (np.asarray(s.R).tolist(), np.asarray(s.S).tolist(), np.asarray(s.phases).tolist(), s.num_qubits)
    if "graph" in inp:
        out["graph"] = np.asarray(inp["graph"].adjacency_matrix).tolist()
    if "circuit" in inp:
        qc = inp["circuit"]
        out["circuit"] = canon(qc)
    if "qubits" in inp:
        out["qubits"] = list(inp["qubits"])
    if "target_circuit" in inp:
        out["target_circuit"] = canon(inp["target_circuit"])
    return out


def execute(spec, inp=None):
    L = libif.lib()
    fn = spec["fn"]
    inp = inp if inp is not None else make_inputs(spec)
    if fn == "get_mubs":
        return L.mub.get_mubs(spec["n"], spec["name"])
    if fn == "get_mub_circuits":
        return L.mub.get_mub_circuits(spec["n"], spec["name"])
    if fn == "get_mub_info":
        return L.mub.get_mub_info(spec["n"], spec["name"])
    if fn == "get_connectivity_graph":
        return L.conn.get_connectivity_graph(spec["n"], spec["name"])
    if fn == "lookup":
        return L.lookup.stabilizer_circuit_lookup(spec["n"], spec["name"], spec["id"])
    if fn in ("prep", "prep_graph"):
        return L.sc.get_preparation_circuit(inp["stab"], spec["name"])
    if fn == "readout":
        return L.sc.get_readout_circuit(inp["stab"], spec["name"])
    if fn == "compress":
        return L.sc.compress_preparation_circuit(inp["circuit"], spec["name"])
    if fn == "rotate":
        return L.rot.rotate_stabilizer_into_state(inp["circuit"], inp.get("target_circuit", inp["stab"]), inplace=False)
    if fn == "classify":
        return L.lc.determine_lc_class(inp["stab"])
    if fn == "f2_on_stabilizer":
        st = inp["stab"]
        n = st.num_qubits
        half = max(1, n // 2)
        return [int(L.f2.rank(st.S)), int(L.f2.rank(st.R)), int(L.f2.rank(st.S[:half, :])), np.asarray(L.f2.null_space(st.R)).tolist(),
                np.asarray(L.f2.rref(st.S)[0]).tolist(), bool(st.validate()), [int(st.is_qubit_entangled(q)) for q in range(n)]]
    if fn == "class_graph":
        cls = {2: L.lc.LCClass2, 3: L.lc.LCClass3, 4: L.lc.LCClass4, 5: L.lc.LCClass5, 6: L.lc.LCClass6}[spec["n"]]
        c = cls(spec["id"])
        return [c, c.get_graph()]
    if fn == "available":
        return L.conn.get_available_connectivities()
    if fn == "tomo":
        return L.tomo.full_state_tomography_circuits(inp["circuit"], spec["name"], inp["qubits"])
    if fn == "stabmeas":
        return L.tomo.stabilizer_measurement_circuit(inp["circuit"], inp["stab"], spec["name"], inp["qubits"])
    if fn == "tomo_fit":
        from gen import tomo
        from oracle import dense
        n = spec["n"]
        prep = libif.build_circuit(n, tomo.ops_tuple(spec["state"]))
        circs = L.tomo.full_state_tomography_circuits(prep, spec["name"])
        counts = [tomo.exact_counts([(1.0, dense.run(tomo.measurement_ops(qc), n))], n, keep_zero=False) for qc in circs]
        ev = L.tomo.FullStateTomographyFitter(tomo.FakeResult(counts), circs).expectation_values()
        return sorted([str(k), round(float(v), 9)] for k, v in ev.items())
    raise KeyError(fn)


# ---- canonical form ---------------------------------------------------------------------------

def canon(obj, depth=0):
    L = libif.lib()
    if obj is None or isinstance(obj, (bool, str)):
        return obj
    if isinstance(obj, (int, np.integer)):
        return int(obj)
    if isinstance(obj, (float, np.floating)):
        return round(float(obj), 12)
    if isinstance(obj, L.QuantumCircuit):
        ops = []
        for o in libif.ops_of(obj):
            ops.append([o[0], list(o[1]), [round(p, 12) for p in (o[2] if len(o) > 2 else ())]])
        meta = obj.metadata if isinstance(obj.metadata, dict) else {}
        return {"__circuit__": obj.num_qubits, "clbits": obj.num_clbits, "ops": ops,
                "meta": {str(k): canon(v, depth + 1) for k, v in sorted(meta.items(), key=lambda kv: str(kv[0]))}}
    if isinstance(obj, L.tomo.ReadoutInfo):
        return {"__readout_info__": canon(obj.circuit, depth + 1), "qubits": canon(obj.qubits, depth + 1), "total": canon(obj.total_num_qubits)}
    if isinstance(obj, L.Graph):
        a = np.asarray(obj.adjacency_matrix)
        return {"__graph__": int(obj.num_vertices), "adj": a.astype(int).tolist()}
    if isinstance(obj, L.lookup.StabilizerCircuitInfo):
        return {"__info__": True, "num_qubits": canon(obj.num_qubits), "graph_id": canon(obj.graph_id), "cost": canon(obj.cost),
                "depth": canon(obj.depth), "circuit_string": canon(obj.circuit_string)}
    if isinstance(obj, L.lc.LCClassBase):
        try:
            ident = int(obj.id())
        except Exception as e:  # noqa: BLE001
            ident = f"raises {type(e).__name__}"
        return {"__lcclass__": type(obj).__name__, "type": obj.type.name, "id": ident,
                "groups": [[list(map(int, t.data)) for t in grp] for grp in obj.data.groups]}
    if isinstance(obj, L.Stabilizer):
        return {"__stabilizer__": list(obj.to_list())}
    if isinstance(obj, np.ndarray):
        return {"__ndarray__": obj.tolist()}
    if isinstance(obj, dict):
        return {"__dict__": [[canon(k, depth + 1), canon(v, depth + 1)] for k, v in sorted(obj.items(), key=lambda kv: str(kv[0]))]}
    if isinstance(obj, (list, tuple)):
        return [canon(x, depth + 1) for x in obj]
    return {"__repr__": repr(obj)}


# ---- adversarial mutation of returned objects ----------------------------------------------------

def mutate(obj, m):
    """mutate a returned object in place (as a careless caller might); returns a description or None if nothing to do"""
    L = libif.lib()
    k = m % 7
    m2 = m // 7
    try:
        if isinstance(obj, list):
            if len(obj) and k in (4, 5, 6):
                inner = obj[m2 % len(obj)]
                if isinstance(inner, (list, dict)) or hasattr(inner, "__dict__") or isinstance(inner, L.QuantumCircuit):
                    d = mutate(inner, m2 // max(1, len(obj)))
                    if d:
                        return f"element {m2 % len(obj)}: {d}"
            if k == 0:
                obj.clear()
                return "list.clear()"
            if k == 1 or not obj:
                obj.append("ZZZZZZ")
                return "list.append('ZZZZZZ')"
            if k == 2:
                i = m2 % len(obj)
                obj[i] = "XX" if isinstance(obj[i], str) else None
                return f"list[{i}] overwritten"
            if k == 3:
                obj.reverse()
                return "list.reverse()"
            obj.pop()
            return "list.pop()"
        if isinstance(obj, dict):
            if k % 2 == 0 and obj:
                key = sorted(obj.keys(), key=str)[m2 % len(obj)]
                obj[key] = -1
                return f"dict[{key!r}] = -1"
            obj.clear()
            return "dict.clear()"
        if isinstance(obj, L.QuantumCircuit):
            if k in (0, 1):
                obj.x(0)
                return "circuit.x(0) appended"
            if k == 2:
                obj.clear()
                return "circuit.clear()"
            if k == 3 and obj.num_qubits >= 2:
                obj.cx(0, obj.num_qubits - 1)
                return "circuit.cx appended"
            if k == 4 and isinstance(obj.metadata, dict) and "readout info" in obj.metadata:
                ri = obj.metadata["readout info"]
                ri.circuit.x(0)
                ri.qubits = None
                return "metadata['readout info'] edited"
            if k == 5 and len(obj.data):
                del obj.data[0]
                return "del circuit.data[0]"
            obj.h(0)
            return "circuit.h(0) appended"
        if isinstance(obj, L.Graph):
            if k % 3 == 0:
                obj.adjacency_matrix.fill(1)
                return "graph.adjacency_matrix.fill(1)"
            if k % 3 == 1:
                obj.add_edge(0, obj.num_vertices - 1)
                obj.local_complementation(0)
                return "graph edges changed"
            obj.clear()
            return "graph.clear()"
        if isinstance(obj, L.lookup.StabilizerCircuitInfo):
            if k % 4 == 0:
                obj.graph_id = 0
                return "info.graph_id = 0"
            if k % 4 == 1:
                obj.cost, obj.depth = 99, 99
                return "info.cost/depth = 99"
            if k % 4 == 2:
                obj.circuit_string = "h0"
                return "info.circuit_string = 'h0'"
            obj.num_qubits = 2
            return "info.num_qubits = 2"
        if isinstance(obj, L.lc.LCClassBase):
            if obj.data.groups:
                for grp in obj.data.groups:
                    for t in grp:
                        if len(t.data):
                            t.data[0] = (t.data[0] + 1) % 6
                            return "class.data.groups[..].data[0] changed"
            obj.data.groups.append([])
            return "class.data.groups.append([])"
        if isinstance(obj, L.tomo.ReadoutInfo):
            obj.circuit.x(0)
            return "ReadoutInfo.circuit.x(0)"
    except Exception as e:  # noqa: BLE001
        return f"mutation raised {type(e).__name__}"
    return None


def _caches():
    L = libif.lib()
    out = {}
    for key, attr in (("stab", "stabilizer_file_cache"), ("mub", "mub_file_cache")):
        c = getattr(L.lookup, attr, None)
        if isinstance(c, dict):
            out[key] = c
    return out


def scramble_inputs(inp):
    """what a caller may do with ITS OWN objects after a call returned: reuse the qubit list, extend the circuit, edit the graph,
    overwrite the matrices.  A result that was correct must not change through this (it must not alias its inputs)."""
    done = []
    q = inp.get("qubits")
    if isinstance(q, list) and len(q) >= 2:
        q[0], q[-1] = q[-1], q[0]
        q.append(q[0])
        done.append("qubits")
    qc = inp.get("circuit")
    if qc is not None:
        try:
            qc.x(0)
            if isinstance(qc.metadata, dict):
                qc.metadata["scrambled"] = True
                for k in list(qc.metadata):
                    if k != "scrambled" and not isinstance(qc.metadata[k], (str, int, float)):
                        pass
            done.append("circuit")
        except Exception:  # noqa: BLE001
            pass
    g = inp.get("graph")
    if g is not None:
        g.adjacency_matrix.fill(0)
        done.append("graph")
    st = inp.get("stab")
    if st is not None:
        try:
            st.R[...] = 0
            st.S[...] = 0
            st.phases[...] = 1
            done.append("stab")
        except Exception:  # noqa: BLE001
            pass
    return done


def reset_caches():
    """cold start: forget everything the library has cached at module level.  Every dict-valued module attribute whose name
    ends in 'cache' in any htstabilizer module is cleared, and cache_clear() is called on functools caches, so a renamed or
    newly added cache is covered as well."""
    import sys as _sys
    for modname, mod in list(_sys.modules.items()):
        if not (modname == "htstabilizer" or modname.startswith("htstabilizer.")) or mod is None:
            continue
        for name in dir(mod):
            try:
                v = getattr(mod, name)
            except Exception:  # noqa: BLE001
                continue
            if isinstance(v, dict) and name.lower().endswith("cache"):
                v.clear()
            elif callable(v) and hasattr(v, "cache_clear") and getattr(v, "__module__", "").startswith("htstabilizer"):
                try:
                    v.cache_clear()
                except Exception:  # noqa: BLE001
                    pass


def flush(which):
    c = _caches()
    for key in (("stab", "mub") if which == "both" else (which,)):
        if key in c:
            c[key].clear()
