#!/usr/bin/env python3
"""Regenerates SENSITIVITY.md from own_mutants.md (own battery) and seeded/*/meta.json + seeded/NOTES.json."""
import os, subprocess, sys
HERE = os.path.dirname(os.path.abspath(__file__))
own = open(os.path.join(HERE, "own_mutants.md")).read()
seeded = subprocess.check_output([sys.executable, os.path.join(HERE, "tools_sens_table.py")], text=True)
text = f"""# SENSITIVITY — can the checks fail, and only for cause?

All runs use the quick tier with VERIF_SEED=1 against a scratch worktree of /repo HEAD with the change applied
(`VERIF_REPO=<worktree>`); /repo itself is never modified and every worktree is removed afterwards.
"caught" = the check exits 1 with a VIOLATION line; "run but quiet" = the check was run against the change and exits 0
(listed so that the reader sees which neighbours were tried, not only the hits).

## 1. Independently seeded changes (sub-agents that saw only the property text)

Ten rounds (153 changes; rounds 1-6 over all 19 properties, rounds 7-10 over 17, 10, 7 and 4 of them; round 10 — `seeded/C10-10`, `C15-10`, `C18-10`, `C19-10`, the four properties with the fewest changes so far, authors under a 12-minute limit — was caught completely by the committed checks without any change to them). Round 1 (`seeded/C01` ... `seeded/C19`): one change per property, free choice of mechanism — most agents chose a
cache or another form of shared state. Round 2 (`seeded/Cxx-2`): a second change per property with the instruction to use
something else (arithmetic, indexing, ordering, sign handling, boundary conditions, data slips). Round 3 (`seeded/Cxx-3`): a
third change per property, told which mechanisms had been used before and asked for something different, confined if possible
to the interaction of two features. Round 4 (`seeded/Cxx-4`): a fourth change per property; each author was shown the
summaries of the three earlier changes for that property and asked for a different mechanism in a different part of the input
space, aimed at what a harness built from the property text would NOT naturally generate. Rounds 5 and 6 (`seeded/Cxx-5`,
`seeded/Cxx-6`): the same with the summaries of all earlier changes for the property and a one-paragraph description of the
kinds of input a harness would naturally generate (strata named in general terms: class-stratified stabilizers in several
generator bases, formats, dtypes and layouts, named states, table representatives, routed / long circuits, ordered sublists,
call sequences), so that the authors look elsewhere; round 6 additionally told them to stay strictly inside the documented
input domain. (The C03 author of round 6 had not finished when this table was generated if `C03-6` is missing.) Every change keeps the 152
stable tests of the repository green and comes with a demonstration program (`demo.py`: exit 1 with the change, exit 0
without), both re-confirmed here by `tools_seeded.py`; `meta.json` holds the agent's description and the recorded runs,
`replays/<check>.json` the minimal failing input the check produced (these are also the regression inputs under `regress/`).

{seeded}
Reading of the table. Every seeded change is caught by the check of the property it targets (last column: after
strengthening where the first version of the check stayed quiet — the quiet runs of the first versions were recorded before
the generators were extended). The recurring lesson of round 1 was that plausible "optimisations" introduce history
dependence; the answer was to make *sequences of related inputs in one process* a standard stratum (C01 deferred
re-verification, C09/C10 configuration sequences, C18 preludes, C19 operation sequences, C13 hermetic histories). The lesson
of round 2 was that special *presentations* of a state (literally in graph form, the table's own representative, several
quantum registers, caller metadata) and *rare table features* (SWAP gates, one configuration's one circuit) deserve strata of
their own rather than being left to uniform sampling. Round 3 added the named textbook states in uniform frames (one local
frame out of 6^n in 16 ring classes cannot be reached by per-qubit sampling), the input/result aliasing step of C13, and the
differential of C17 against the library's own record of each table line. Round 4 added: light generator mixing and pure
reordering as presentation styles next to dense mixing (C06, C12 and all class-stratified sweeps), qubit-local corruption of
valid stabilizers (C08), tomography of the library's own MUB basis states (C10), SWAPs and the BFS minimum in C05's compressed
competitor circuits, boolean matrices (C15, C06), long circuits with SWAP-as-three-CX (C14), graphs built from arrays in
several memory layouts (C19) and more dtypes / layouts / rank profiles for C18. Of the 19 round-4 changes, 10 were caught by
the checks as they stood and 9 led to one of these extensions. Rounds 5 and 6 turned from *which state* to *how the same input
is written* and to *ordinary small inputs that class-stratified sampling skips*: Bell pairs moved by SWAPs and input circuits that
never touch some qubits (C02, C04, C07), spare qubits written as +-Z (C05), every generating set of a group and heaviest-element
bases (C06), dense perturbations (C08), wide matrices (C18), f2 helpers on a live object's arrays and repeated queries of one
class object (C13), all written forms of a grouping (C19), qubit lists as numpy integers / counted from the end / with structured
orders (C11), counts dictionaries in any order, genuine qiskit `Result` objects and multi-experiment jobs (C10-C12), preparation
circuits that end where the readout begins (C12), qiskit idioms for the same gates (C14), positional flags (C14), stabilizers of
different sizes (C15), boolean arrays and identity operators (C16). Of the 19 round-5 changes 10 were caught as the checks stood,
of the 18-19 round-6 changes 8; every miss led to one of the extensions above and is caught by the checks as committed.

## 2. Own mutation battery (`tools_mutants_batch.py`)

30 textual mutants derived from the mutant lists in DESIGN.md §4, each run against its target check and plausible
neighbours.

{own}
All 30 mutants are caught by their target check. Quiet neighbours are as expected: the readout-only mutant does not touch
MUB files (C09), the extra CZ pair sits on edge (0,1) which every configuration has (C02), C10 measures all qubits in
identity order (C11 mutant), and a longer but self-consistent table line is C05's business, not C17's.

## 3. Changes that must NOT raise an alarm

Behaviour-preserving refactorings of the library were run against the checks to look for over-reach: (a) the HSH block of
the local layer emitted as one `sx` gate instead of `h s h` (all 19 checks quiet; the simulators interpret `sx`/`sxdg`, unknown
gates go through their matrix); (b) a *correct* memoisation of the phase-less preparation circuit that always hands out copies,
combined with (c) every rejection raising `ValueError` instead of `AssertionError` (C01, C02, C03, C04, C05, C07, C08, C13
quiet). One over-reach was found earlier by a seeded change and removed (C04's comparison of two-qubit gate multisets with the
table line).

Exception injection (nine variants of the library in which one public function raises an unusual exception for one size /
class / token / connectivity, each run against all 19 checks): every check ends with exit 0 or exit 1, never with a harness
error, after three unguarded library calls had been found and guarded this way (DESIGN.md section 13).

## 4. Quietness

Every registered quick command was run on the repaired tree at VERIF_SEED = 1, 2, 3, 7 and 11 in fresh processes
(about 8.6 minutes per seed for all nineteen on an idle machine)
(`tools_quiet.sh`); all exit 0 with no VIOLATION line (C05 prints its 570 KNOWN-FINDING lines). `vp check` (fresh copy of the
sandbox, offline) reported nothing needing attention.
"""
open(os.path.join(HERE, "SENSITIVITY.md"), "w").write(text)
print("written")
