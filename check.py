#!/venv/bin/python
"""check.py <ID> [--tier quick|thorough] [--replay FILE]

Exit 0: property held on everything explored (KNOWN-FINDING lines may be printed).
Exit 1: a line `VIOLATION property=<id> replay=<path>` was printed.
Exit 2: harness error (import failure, oracle self-test failure, worker crash).
"""
import argparse
import importlib
import json
import os
import sys
import time
import traceback

HERE = os.path.dirname(os.path.abspath(__file__))
T_START = time.time()


def _reexec_with_env():
    want = {"PYTHONHASHSEED": "0", "PYTHONDONTWRITEBYTECODE": "1", "QISKIT_PARALLEL": "FALSE",
            "RAYON_NUM_THREADS": "1", "OMP_NUM_THREADS": "1", "OPENBLAS_NUM_THREADS": "1"}
    if any(os.environ.get(k) != v for k, v in want.items()):
        env = dict(os.environ)
        env.update(want)
        os.execve(sys.executable, [sys.executable] + sys.argv, env)


def main():
    _reexec_with_env()
    os.chdir(HERE)
    if HERE not in sys.path:
        sys.path.insert(0, HERE)
    ap = argparse.ArgumentParser()
    ap.add_argument("pid")
    ap.add_argument("--tier", default=os.environ.get("VERIF_TIER", "quick"), choices=["quick", "thorough"])
    ap.add_argument("--replay", default=None)
    ap.add_argument("--budget", type=float, default=None, help="wall-clock budget in seconds (generation stops, never a violation)")
    ap.add_argument("--no-selftest", action="store_true")
    ap.add_argument("--dump-failures", default=None, help="write key<TAB>message of every failure bucket to this file (development aid)")
    args = ap.parse_args()
    pid = args.pid.upper()
    try:
        seed = int(os.environ.get("VERIF_SEED", "1"))
    except ValueError:
        seed = 1

    import framework as fw
    try:
        if not args.no_selftest:
            from oracle import selftest
            selftest.run_all(seed)
        import libif
        libif.lib()
        mod = importlib.import_module(f"props.{pid.lower()}")
    except Exception:
        traceback.print_exc()
        print(f"HARNESS-ERROR property={pid} (setup / self-test / import)", file=sys.stderr)
        return 2

    if args.replay:
        try:
            with open(args.replay) as f:
                body = json.load(f)
            fails = mod.replay(body["case"])
        except Exception:
            traceback.print_exc()
            print(f"HARNESS-ERROR property={pid} (replay)", file=sys.stderr)
            return 2
        if fails:
            for fl in fails[:5]:
                print(f"  still fails: {fl.get('msg')}")
            print(f"VIOLATION property={pid} replay={os.path.relpath(os.path.abspath(args.replay), HERE)}")
            return 1
        print(f"replay passes: property={pid}")
        return 0

    budget = args.budget
    if budget is None:
        budget = getattr(mod, "BUDGET", {}).get(args.tier)
    ctx = fw.Ctx(pid, args.tier, seed, budget_s=budget)
    ctx.t0 = T_START
    try:
        report = mod.run(ctx)
    except fw.HarnessError as e:
        print(str(e), file=sys.stderr)
        print(f"HARNESS-ERROR property={pid}", file=sys.stderr)
        return 2
    except Exception:
        traceback.print_exc()
        print(f"HARNESS-ERROR property={pid}", file=sys.stderr)
        return 2

    # seconds-long regression tier: saved minimal inputs of earlier findings (pinned-tree defects, seeded changes) are
    # replayed through the same predicate on every run, bypassing generators and Hypothesis
    regress_dir = os.path.join(HERE, "regress", pid)
    n_regress = 0
    if os.path.isdir(regress_dir):
        for fn in sorted(os.listdir(regress_dir)):
            if not fn.endswith(".json"):
                continue
            try:
                with open(os.path.join(regress_dir, fn)) as f:
                    body = json.load(f)
                fails = mod.replay(body["case"])
            except Exception:
                traceback.print_exc()
                print(f"HARNESS-ERROR property={pid} (regression replay {fn})", file=sys.stderr)
                return 2
            n_regress += 1
            for fl in fails[:1]:
                report.fail(fl.get("key", f"regress:{fn}"), body["case"], f"[regression input regress/{pid}/{fn}] {fl.get('msg')}")
    report.extra["regression_inputs_replayed"] = n_regress

    known = fw.load_known(pid)
    known_hit = {}
    buckets = {}
    for fl in report.failures:
        k = str(fl.get("key"))
        if k in known:
            known_hit[k] = known[k]
            continue
        if k not in buckets or fw.case_size(fl) < fw.case_size(buckets[k]):
            buckets[k] = fl
    for k in sorted(known_hit):
        print(f"KNOWN-FINDING: property={pid} key={k} {known_hit[k]}")
    if args.dump_failures:
        with open(args.dump_failures, "w") as f:
            for k in sorted(buckets):
                f.write(f"{k}\t{buckets[k].get('msg')}\n")
    stale = sorted(set(known) - set(known_hit))
    exhaustive = bool(report.extra.pop("exhaustive", False))
    viol = 0
    for k in sorted(buckets, key=lambda kk: fw.case_size(buckets[kk])):
        fl = buckets[k]
        viol += 1
        if viol <= 25:
            path = fw.write_replay(pid, fl)
            print(f"  {fl.get('msg')}")
            print(f"VIOLATION property={pid} replay={path}")
    if viol > 25:
        print(f"  ... {viol - 25} further distinct failure buckets not written out")
    extra = {"known_findings_listed": len(known), "known_findings_reproduced": len(known_hit)}
    if stale and getattr(mod, "KNOWN_ALWAYS_REACHED", False):
        extra["known_findings_not_reproduced"] = stale[:50]
    fw.write_evidence(pid, ctx, report, mod.RULE, getattr(mod, "ASSUMPTIONS", []), viol, len(known_hit),
                      exhaustive, extra)
    dt = time.time() - ctx.t0
    print(f"{pid} tier={args.tier} seed={seed} evaluations={report.evaluations} "
          f"distinct_nontrivial={len(report.nontrivial)} violations={viol} known={len(known_hit)} "
          f"truncated={report.truncated} wall={dt:.1f}s")
    return 1 if viol else 0


if __name__ == "__main__":
    sys.exit(main())
