#!/usr/bin/env python3
"""Sensitivity experiment: copy the repository to a scratch directory, apply one textual mutation (or a patch file),
run the given checks against the copy (VERIF_REPO), report exit codes, delete the copy.

usage: tools_mutant.py --file src/htstabilizer/x.py --old 'text' --new 'text' [--tier quick] C01 C03 ...
       tools_mutant.py --patch /path/to/patch.diff C01 ...
"""
import argparse, os, shutil, subprocess, sys, tempfile, time
ap = argparse.ArgumentParser()
ap.add_argument("--file"); ap.add_argument("--old"); ap.add_argument("--new"); ap.add_argument("--patch")
ap.add_argument("--tier", default="quick"); ap.add_argument("--count", type=int, default=1)
ap.add_argument("--seed", default="1")
ap.add_argument("props", nargs="+")
a = ap.parse_args()
here = os.path.dirname(os.path.abspath(__file__))
tmp = tempfile.mkdtemp(prefix="mut_", dir="/tmp")
try:
    subprocess.check_call(["git", "-C", "/repo", "worktree", "add", "-q", "--detach", tmp + "/r", "HEAD"])
    root = tmp + "/r"
    # carry over uncommitted changes of /repo (normally none)
    if a.patch:
        subprocess.check_call(["git", "-C", root, "apply", a.patch])
    else:
        p = os.path.join(root, a.file)
        s = open(p).read()
        if s.count(a.old) < 1:
            print("MUTATION TEXT NOT FOUND"); sys.exit(3)
        s = s.replace(a.old, a.new, a.count)
        open(p, "w").write(s)
    env = dict(os.environ, VERIF_REPO=root, VERIF_EVIDENCE_DIR=tmp + "/ev", VERIF_REPLAY_DIR=tmp + "/rp", VERIF_SEED=a.seed)
    for pid in a.props:
        t = time.time()
        r = subprocess.run([os.path.join(here, "check.py"), pid, "--tier", a.tier], env=env, capture_output=True, text=True)
        lines = [l for l in r.stdout.splitlines() if not l.startswith("KNOWN-FINDING")]
        viol = [l for l in lines if l.startswith("VIOLATION")]
        print(f"== {pid}: exit={r.returncode} violations={len(viol)} wall={time.time()-t:.0f}s")
        for l in lines[:6]:
            print("   ", l[:260])
        if r.returncode == 2:
            print(r.stderr[-1500:])
finally:
    subprocess.call(["git", "-C", "/repo", "worktree", "remove", "--force", tmp + "/r"])
    shutil.rmtree(tmp, ignore_errors=True)
