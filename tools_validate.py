#!/usr/bin/env python3
"""Validate MANIFEST.json and evidence/*.json against the schemas in /root/.vp (needs jsonschema: run with python3-vt)."""
import json, sys, glob, os
import jsonschema
here = os.path.dirname(os.path.abspath(__file__))
ok = True
ms = json.load(open("/root/.vp/MANIFEST.schema.json")); es = json.load(open("/root/.vp/EVIDENCE.schema.json"))
m = json.load(open(os.path.join(here, "MANIFEST.json")))
try:
    jsonschema.validate(m, ms); print("MANIFEST ok,", len(m["checks"]), "checks,", len(m.get("not_applicable", [])), "n/a")
except jsonschema.ValidationError as e:
    ok = False; print("MANIFEST INVALID:", e.message)
props = [json.loads(l)["id"] for l in open(os.path.join(here, "properties.jsonl"))]
claimed = [c["property_id"] for c in m["checks"]]; na = [c["property_id"] for c in m.get("not_applicable", [])]
for p in props:
    if p not in claimed and p not in na:
        ok = False; print("property neither claimed nor n/a:", p)
for f in sorted(glob.glob(os.path.join(here, "evidence", "*.json"))):
    try:
        jsonschema.validate(json.load(open(f)), es); print("ok", os.path.basename(f))
    except jsonschema.ValidationError as e:
        ok = False; print("INVALID", f, e.message)
sys.exit(0 if ok else 1)
