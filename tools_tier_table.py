#!/usr/bin/env python3
"""Rewrites the table 'Measured sizes of the two tiers' in DESIGN.md from evidence/*.json (quick tier, written by the last run of the
checks in /verif) and, if given, the log of a thorough run (lines '<ID> tier=thorough ... evaluations=N ... wall=Ts')."""
import json, os, re, sys
HERE = os.path.dirname(os.path.abspath(__file__))
thor = {}
if len(sys.argv) > 1:
    for ln in open(sys.argv[1]):
        m = re.match(r"(C\d+) tier=thorough .*evaluations=(\d+) .*truncated=(\w+) wall=([\d.]+)s", ln)
        if m:
            thor[m.group(1)] = (int(m.group(2)), m.group(3) == "True", float(m.group(4)))
rows = []
for i in range(1, 20):
    pid = f"C{i:02d}"
    e = json.load(open(os.path.join(HERE, "evidence", pid + ".json")))
    q = f"{e['coverage']['evaluations']:,}".replace(",", " ") + f" / {e['wall_s']:.0f} s"
    if pid in thor:
        n, tr, w = thor[pid]
        t = f"{n:,}".replace(",", " ") + f" / {w / 60:.0f} min" + (" (stopped by its budget under load)" if tr else "")
    else:
        t = "-"
    rows.append(f"| {pid} | {q} | {t} |")
p = os.path.join(HERE, "DESIGN.md")
lines = open(p).read().split("\n")
start = next(i for i, l in enumerate(lines) if l.startswith("| id | quick: evaluations / wall"))
end = start + 2
while end < len(lines) and lines[end].startswith("| C"):
    end += 1
lines[start + 2:end] = rows
open(p, "w").write("\n".join(lines))
print("\n".join(rows))
