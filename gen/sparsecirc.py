"""Input circuits that leave part of the register untouched (no instruction at all on the idle qubits): Bell pairs, GHZ states, short
chains and drawn Clifford sub-circuits on a subset of the qubits -- "a Bell pair on qubits 0 and 3 of a five-qubit register".
All entangling gates are between ARBITRARY qubits (the input need not respect any connectivity)."""
import itertools

import framework as fw
from gen import members


def sparse_circuits(n, seed, tag, quick=True):
    """yields (label, ops) with ops = [[name, [qubits]], ...] over the ten documented gates"""
    if n < 3:
        return
    qs = list(range(n))
    for a, b in itertools.permutations(qs, 2):
        ops = [["h", [a]], ["cx", [a, b]]]
        v = fw.h64(tag, "bellv", seed, n, a, b) % 4
        if v == 1:
            ops.append(["x", [b]])
        elif v == 2:
            ops = [["h", [a]], ["h", [b]], ["cz", [a, b]]]
        elif v == 3:
            ops.append(["z", [a]])
        yield f"bell({a},{b})/v{v}", ops
    for a in qs:
        for b, c in itertools.combinations([q for q in qs if q != a], 2):
            yield f"ghz-star({a};{b},{c})", [["h", [a]], ["cx", [a, b]], ["cx", [a, c]]]
    for a, b, c in itertools.permutations(qs, 3):
        if quick and fw.h64(tag, "chain", seed, n, a, b, c) % 3:
            continue
        yield f"ghz-chain({a},{b},{c})", [["h", [a]], ["cx", [a, b]], ["cx", [b, c]]]
    if n >= 5:
        for p1 in itertools.combinations(qs, 2):
            for p2 in itertools.combinations([q for q in qs if q not in p1], 2):
                if p1 < p2:
                    (a, b), (c, d) = p1, p2
                    if fw.h64(tag, "2b", seed, n, p1, p2) & 1:
                        a, b = b, a
                    yield f"bells({a},{b})({c},{d})", [["h", [a]], ["cx", [a, b]], ["h", [c]], ["cx", [c, d]]]
        for sub in itertools.permutations(qs, 4):
            if fw.h64(tag, "l4", seed, n, sub) % (24 if quick else 4):
                continue
            a, b, c, d = sub
            yield f"line({a},{b},{c},{d})", [["h", [a]], ["h", [b]], ["h", [c]], ["h", [d]], ["cz", [a, b]], ["cz", [b, c]], ["cz", [c, d]]]
    rng = fw.rng_for(tag, "sparse-random", seed, n)
    for i in range(20 if quick else 200):
        k = rng.randrange(2, n)
        sub = rng.sample(qs, k)
        ops = [[g, [sub[q] for q in qq]] for g, qq in members.random_clifford_ops(k, rng, rng.randrange(3, 13), p2=0.45)]
        if len({q for o in ops for q in o[1]}) < n:
            yield f"random-on-{k}-of-{n}#{i}", ops
