"""Named ('textbook') states: graph states of named graphs in their standard labelling, followed by the SAME single-qubit
Clifford on every qubit (24 Cliffords: 6 classes mod Paulis x 4 Paulis).  These are the inputs a user is most likely to type
in (|0..0>, |+..+>, GHZ / star, line and ring cluster states, complete graph, Bell pairs ...), and uniform frames are exactly
what independent per-qubit sampling almost never produces (probability 6^-n)."""
from oracle import pauli, lc
from gen import members


def named_graphs(n):
    out = {"empty": []}
    out["line"] = [(i, i + 1) for i in range(n - 1)]
    if n >= 3:
        out["ring"] = [(i, (i + 1) % n) for i in range(n)]
        out["star0"] = [(0, i) for i in range(1, n)]
        out["complete"] = [(i, j) for i in range(n) for j in range(i + 1, n)]
    if n >= 4:
        out["pairs"] = [(i, i + 1) for i in range(0, n - 1, 2)]
        out["star-last"] = [(n - 1, i) for i in range(n - 1)]
    if n == 6:
        out["two-triangles"] = [(0, 1), (1, 2), (0, 2), (3, 4), (4, 5), (3, 5)]
        out["prism"] = [(0, 1), (1, 2), (0, 2), (3, 4), (4, 5), (3, 5), (0, 3), (1, 4), (2, 5)]
        out["ring-reversed-pairs"] = [(0, 2), (2, 4), (4, 1), (1, 3), (3, 5), (5, 0)]
    return {k: lc.gid_from_edges(n, [tuple(sorted(e)) for e in v]) for k, v in out.items()}


def uniform_words():
    return [(a + b) for a in members.LOCAL_WORDS for b in members.PAULI_WORDS]


def named_subjects(n):
    """yields (label, gid, uniform word, signed generators in canonical order, circuit ops)"""
    for gname, gid in sorted(named_graphs(n).items()):
        base = lc.graph_state_gens(n, gid)
        circ0 = [["h", [q]] for q in range(n)] + [["cz", list(e)] for e in lc.edges_from_gid(n, gid)]
        for w in uniform_words():
            layer = [(g, (q,)) for q in range(n) for g in w]
            gens = [pauli.propagate(g, layer) for g in base]
            circ = circ0 + [[g, [q]] for q in range(n) for g in w]
            yield f"{gname}+{''.join(w) or 'id'}", gid, w, gens, circ
