"""Independent reading of the shipped stabilizer tables (strict parser) and the orbit -> class-id pairing they define."""
import os

import libif
from oracle import lc, tables

_CACHE = {}


def lines(n, name):
    key = (n, name)
    if key not in _CACHE:
        L = libif.lib()
        _CACHE[key] = tables.read_lines(os.path.join(L.datadir, f"stabilizer{n}-{name}.txt"))
    return _CACHE[key]


def parsed(n, name):
    """list of (gid, cost, depth, ops) or None for unparsable lines"""
    key = ("p", n, name)
    if key not in _CACHE:
        out = []
        for ln in lines(n, name):
            try:
                out.append(tables.parse_stabilizer_line(n, ln))
            except tables.TableError:
                out.append(None)
        _CACHE[key] = out
    return _CACHE[key]


def class_of_orbit(n, name):
    key = ("c", n, name)
    if key not in _CACHE:
        tab = lc.orbit_table(n)
        m = {}
        for k, p in enumerate(parsed(n, name)):
            if p is not None:
                m.setdefault(tab[p[0]], k)
        _CACHE[key] = m
    return _CACHE[key]
