"""Shared machinery for the tomography properties (C10, C11, C12): state generators, exact outcome
statistics from the dense simulator, a duck-typed result object, and conversion of fitter output."""
import numpy as np

import libif
from oracle import dense, pauli


class FakeResult:
    """what the fitters need from qiskit.result.Result: get_counts() -> dict (one circuit) or list of dicts"""

    def __init__(self, counts_list, single_as_dict=True, names=None):
        self._c = counts_list
        self._single = single_as_dict
        self._names = list(names) if names is not None else [None] * len(counts_list)

    def get_counts(self, experiment=None):
        """as qiskit.result.Result.get_counts: no argument -> all experiments (a dict if there is one, else a list); an index -> that
        experiment; a circuit or a name -> the FIRST experiment whose header carries that name"""
        if experiment is None:
            if len(self._c) == 1 and self._single:
                return dict(self._c[0])
            return [dict(c) for c in self._c]
        if isinstance(experiment, (int, np.integer)) and not isinstance(experiment, bool):
            return dict(self._c[int(experiment)])
        name = experiment if isinstance(experiment, str) else getattr(experiment, "name", None)
        for c, nm in zip(self._c, self._names):
            if nm is not None and nm == name:
                return dict(c)
        raise LookupError(f'Data for experiment "{name}" could not be found.')


def make_result(counts_list, circuits, salt, single_as_dict=True):
    """the Result handed to the fitters: even salt -> the duck-typed FakeResult, odd salt -> a genuine qiskit.result.Result built with
    Result.from_dict (hexadecimal keys, experiment headers carrying the circuit's name and classical register size, as a backend
    produces them; exact probabilities / rescaled counts are kept as given)"""
    if salt % 2 == 0:
        return FakeResult(counts_list, single_as_dict=single_as_dict, names=[qc.name for qc in circuits])
    from qiskit.result import Result
    exps = []
    for c, qc in zip(counts_list, circuits):
        m = max(1, int(qc.num_clbits))
        exps.append({"shots": 1, "success": True, "data": {"counts": {hex(int(k, 2)): v for k, v in c.items()}},
                     "header": {"name": qc.name, "memory_slots": m, "creg_sizes": [["c", m]]}})
    return Result.from_dict({"backend_name": "exact", "backend_version": "0", "qobj_id": "0", "job_id": "0", "success": True, "results": exps})


def job_with_decoys(counts, qc, salt):
    """one job holding several experiments (e.g. several measurement circuits derived from one preparation, all with its name): the
    wanted experiment sits at index k among decoys with other statistics over the same outcomes.  Returns (result, k)."""
    K = 1 + (salt // 2) % 3
    k = (salt // 6) % K
    keys = list(counts)
    total = sum(counts.values())
    lists = []
    for j in range(K):
        if j == k:
            lists.append(dict(counts))
        else:                         # a different distribution: all weight on one outcome that depends on j
            d = {kk: (0 * total) for kk in keys}
            d[keys[(7 * j + salt) % len(keys)]] = total
            lists.append(d)
    return make_result(lists, [qc] * K, salt, single_as_dict=bool((salt // 2) % 2)), k


def key_of(index_bits, N):
    """little-endian key string: qubit q at position -1-q"""
    return "".join(str(index_bits[q]) for q in range(N - 1, -1, -1))


def exact_counts(psis_weights, N, rng=None, keep_zero=None):
    """outcome distribution of a computational-basis measurement of the mixture sum_k w_k |psi_k><psi_k|
    (tensors with axis q = qubit q) as {little-endian bitstring: probability}"""
    probs = None
    for w, psi in psis_weights:
        p = w * (np.abs(psi) ** 2)
        probs = p if probs is None else probs + p
    out = {}
    it = np.ndindex(*probs.shape)
    for idx in it:
        p = float(probs[idx])
        if p < 1e-15:
            if keep_zero is None:
                keep = (rng.random() < 0.5) if rng is not None else False
            else:
                keep = keep_zero
            if not keep:
                continue
            p = 0.0
        out[key_of(idx, N)] = p
    # the order in which a counts dictionary lists its outcomes carries no meaning: as enumerated here (qubit N-1 fastest, i.e.
    # bit-reversed), ascending, descending, or shuffled
    if rng is not None:
        order = rng.randrange(4)
        keys = list(out)
        if order == 1:
            keys.sort()
        elif order == 2:
            keys.sort(reverse=True)
        elif order == 3:
            rng.shuffle(keys)
        out = {k: out[k] for k in keys}
    return out


def rescale_counts(counts, mode_seed):
    """the fitters normalise by the total, so any positive rescaling of exact probabilities is still exact statistics:
    mode 0: probabilities (total 1.0); 1: float counts with total 1000; 2: total 7.0; 3: exact integer counts when all
    probabilities are multiples of 2^-k (stabilizer-like statistics), else total 8192.0"""
    mode = mode_seed % 4
    if mode == 0:
        return counts
    if mode == 3:
        for k in range(0, 14):
            sc = 1 << k
            if all(abs(v * sc - round(v * sc)) < 1e-13 for v in counts.values()):
                return {b: int(round(v * sc)) * 3 for b, v in counts.items()}
        return {b: v * 8192.0 for b, v in counts.items()}
    sc = 1000.0 if mode == 1 else 7.0
    return {b: v * sc for b, v in counts.items()}


def measurement_ops(qc):
    """instruction list of a measurement circuit without barrier / measure"""
    return [o for o in libif.ops_of(qc) if o[0] not in dense.SKIP]


def pauli_key(p):
    """qiskit Pauli -> (phase, x mask, z mask, n)"""
    x = z = 0
    for q, b in enumerate(p.x):
        if b:
            x |= 1 << q
    for q, b in enumerate(p.z):
        if b:
            z |= 1 << q
    return int(p.phase), x, z, len(p.x)


def convert_expectations(d):
    """{qiskit Pauli: value} -> ({(x, z): value}, problems)"""
    out = {}
    problems = []
    for k, v in d.items():
        ph, x, z, n = pauli_key(k)
        if ph != 0:
            problems.append(f"key {k} carries a phase")
        if (x, z) in out:
            problems.append(f"duplicate key {k}")
        out[(x, z)] = float(np.real(v))
    return out, problems


def ops_plain(ops):
    return [[o[0], list(o[1])] + ([list(o[2])] if len(o) > 2 and o[2] else []) for o in ops]


def ops_tuple(ops):
    return [(o[0], tuple(o[1]), tuple(o[2]) if len(o) > 2 else ()) for o in ops]


# ---- Hypothesis state strategies ----------------------------------------------------------------

def state_ops_strategy(N, max_len=14):
    from hypothesis import strategies as st
    angle = st.floats(min_value=0.0, max_value=6.283185307179586, allow_nan=False, allow_infinity=False)

    @st.composite
    def ops(draw):
        kind = draw(st.sampled_from(["clifford+t", "rotations", "ghz-like", "w-like"]))
        out = []
        order = list(draw(st.permutations(list(range(N)))))
        if kind == "ghz-like":
            out.append(["ry", [order[0]], [draw(angle)]])
            for a, b in zip(order, order[1:]):
                out.append(["cx", [a, b]])
        elif kind == "w-like":
            for q in order:
                out.append(["ry", [q], [draw(angle)]])
            for a, b in zip(order, order[1:]):
                out.append([draw(st.sampled_from(["cx", "cz"])), [a, b]])
                out.append(["ry", [b], [draw(angle)]])
        length = draw(st.integers(0 if out else 1, max_len))
        for _ in range(length):
            if N >= 2 and draw(st.integers(0, 3)) == 0:
                a = draw(st.integers(0, N - 1)); b = draw(st.integers(0, N - 2)); b = b if b < a else b + 1
                out.append([draw(st.sampled_from(["cx", "cz", "swap"])), [a, b]])
            elif kind == "clifford+t":
                out.append([draw(st.sampled_from(["h", "s", "sdg", "t", "tdg", "x", "y", "z", "h", "t"])), [draw(st.integers(0, N - 1))]])
            else:
                out.append([draw(st.sampled_from(["rx", "ry", "rz"])), [draw(st.integers(0, N - 1))], [draw(angle)]])
        return out
    return ops()


def state_tensor(N, ops):
    return dense.run(ops_tuple(ops), N)


def pauli_vector(rho_t, m):
    """all 4^m expectation values Tr(rho P), index (x, z)"""
    return dense.all_pauli_expectations(rho_t, m)


def rho_of_mixture(psis_weights, qubits):
    r = None
    for w, psi in psis_weights:
        t = w * dense.reduced_density(psi, list(qubits))
        r = t if r is None else r + t
    return r
