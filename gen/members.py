"""Constructive generators for stabilizer groups (never rejection):

G-member(n, orbit): representative graph -> random local complementations -> random single-qubit Clifford
per qubit -> random element of GL(n,2) on the generator list -> random sign vector.
All randomness comes from the random.Random instance handed in (counter-based stream, see framework.rng_for).
"""
from oracle import pauli, lc

LOCAL_WORDS = [(), ("h",), ("s",), ("s", "h"), ("h", "s"), ("h", "s", "h")]   # the 6 Cliffords mod Paulis
PAULI_WORDS = [(), ("x",), ("y",), ("z",)]


def orbit_reps(n):
    """sorted list of orbit-minimum graph ids (one per LC class), from the oracle table only"""
    return sorted(set(lc.orbit_table(n)))


def random_lc_walk(n, gid, rng, steps=None):
    adj = lc.adj_from_gid(n, gid)
    steps = rng.randrange(0, 2 * n + 1) if steps is None else steps
    for _ in range(steps):
        v = rng.randrange(n)
        adj = lc.local_complement(n, adj, v)
    return lc.gid_from_adj(n, adj)


def random_local_layer(n, rng, with_paulis=True):
    ops = []
    for q in range(n):
        for g in rng.choice(LOCAL_WORDS):
            ops.append((g, (q,)))
        if with_paulis:
            for g in rng.choice(PAULI_WORDS):
                ops.append((g, (q,)))
    return ops


def random_basis_change(gens, rng, steps=None):
    gens = list(gens)
    n = len(gens)
    steps = rng.randrange(0, 3 * n + 1) if steps is None else steps
    for _ in range(steps):
        i, j = rng.randrange(n), rng.randrange(n)
        if i == j:
            continue
        if rng.random() < 0.25:
            gens[i], gens[j] = gens[j], gens[i]
        else:
            gens[i] = pauli.mul(gens[i], gens[j])
    return gens


def extreme_weight_basis(gens, n, rng, heavy=True):
    """generating set of the same group made of its heaviest (heavy=True: e.g. every generator acting on every qubit, where the group
    has n independent such elements) or lightest elements: matroid greedy over all 2^n - 1 non-identity group elements"""
    elems = [(0, 0, 0)]
    for g in gens:
        elems += [pauli.mul(e, g) for e in elems]
    elems = [e for e in elems if e[1] | e[2]]
    rng.shuffle(elems)
    elems.sort(key=lambda e: bin(e[1] | e[2]).count("1"), reverse=heavy)
    basis, red = [], []          # red: reduced (x|z<<n) vectors with their pivot bit
    for e in elems:
        v = e[1] | (e[2] << n)
        for (p, r) in red:
            if v >> p & 1:
                v ^= r
        if v:
            red.append((v.bit_length() - 1, v))
            basis.append(e)
            if len(basis) == len(gens):
                break
    return basis


def two_colouring(n, adj):
    colour = [None] * n
    for s in range(n):
        if colour[s] is not None:
            continue
        colour[s] = 0
        stack = [s]
        while stack:
            v = stack.pop()
            for u in range(n):
                if adj[v] >> u & 1:
                    if colour[u] is None:
                        colour[u] = 1 - colour[v]
                        stack.append(u)
                    elif colour[u] == colour[v]:
                        return None
    return colour


def css_member(n, orbit_gid, rng, tries=40):
    """a member of the class written in CSS form (every generator purely of X type or purely of Z type), or None when no bipartite graph
    of the orbit is found: graph state of a two-colourable graph with H on one colour class, then row operations among the X-type
    generators and among the Z-type generators (so the X checks are typically NOT in reduced form), shuffled"""
    for t in range(tries):
        gid = orbit_gid if t == 0 else random_lc_walk(n, orbit_gid, rng, steps=rng.randrange(1, 3 * n))
        adj = lc.adj_from_gid(n, gid)
        col = two_colouring(n, adj)
        if col is None:
            continue
        if rng.random() < 0.5:
            col = [1 - c for c in col]
        layer = [("h", (q,)) for q in range(n) if col[q] == 1]
        gens = [pauli.propagate(g, layer) for g in lc.graph_state_gens(n, gid)]
        xs = [g for g in gens if g[2] == 0]
        zs = [g for g in gens if g[1] == 0]
        if len(xs) + len(zs) != n:
            continue
        for grp in (xs, zs):
            for _ in range(rng.randrange(0, 2 * len(grp) + 1)):
                if len(grp) >= 2:
                    i, j = rng.sample(range(len(grp)), 2)
                    grp[i] = pauli.mul(grp[i], grp[j])
        out = xs + zs
        if rng.random() < 0.5:
            rng.shuffle(out)
        return out, {"graph": gid, "layer": [[g, list(q)] for g, q in layer]}
    return None


def apply_signs(gens, signs):
    return [(g[0] ^ ((signs >> i) & 1), g[1], g[2]) for i, g in enumerate(gens)]


def member(n, orbit_gid, rng, signs="random", mix=True, local=True):
    """one member of the LC class of graph `orbit_gid` as a list of n signed Paulis"""
    if mix == "css":        # written in CSS form where the class has one (else densely mixed)
        r = css_member(n, orbit_gid, rng)
        if r is None:
            mix = True
        else:
            gens, info = r
            if signs == "random":
                gens = apply_signs(gens, rng.randrange(1 << n))
            elif signs == "minus":
                gens = [(1, g[1], g[2]) for g in gens]
            elif signs not in ("plus",):
                gens = apply_signs(gens, int(signs))
            return gens, info
    gid = random_lc_walk(n, orbit_gid, rng)
    gens = lc.graph_state_gens(n, gid)
    layer = random_local_layer(n, rng) if local else []
    gens = [pauli.propagate(g, layer) for g in gens]
    if mix == "light":      # one or two products of generators (e.g. a generator of one tensor factor multiplied onto another's), reordered
        gens = random_basis_change(gens, rng, steps=rng.choice([1, 2, 2, 3]))
        rng.shuffle(gens)
    elif mix == "uniform":  # close to a uniformly random invertible combination of the generators (10 n row operations)
        gens = random_basis_change(gens, rng, steps=10 * n)
    elif mix == "heavy":    # the heaviest group elements as generators (all of full weight where the group allows it)
        gens = extreme_weight_basis(gens, n, rng, heavy=True)
    elif mix:
        gens = random_basis_change(gens, rng)
    if signs == "random":
        sv = rng.randrange(1 << n)
    elif signs == "plus":
        sv = 0
        gens = [(0, g[1], g[2]) for g in gens]
    elif signs == "minus":
        gens = [(1, g[1], g[2]) for g in gens]
        sv = 0
    else:
        sv = int(signs)
    gens = apply_signs(gens, sv)
    return gens, {"graph": gid, "layer": [[g, list(q)] for g, q in layer]}


def group_of_circuit(n, ops):
    """signed stabilizer generators of ops|0..0>: images of +Z_q"""
    return [pauli.propagate((0, 0, 1 << q), ops) for q in range(n)]


GATES1 = ["h", "s", "sdg", "x", "y", "z", "id"]
GATES2 = ["cx", "cz", "swap"]


def random_clifford_ops(n, rng, length, p2=0.35):
    ops = []
    for _ in range(length):
        if n >= 2 and rng.random() < p2:
            a, b = rng.sample(range(n), 2)
            ops.append((rng.choice(GATES2), (a, b)))
        else:
            ops.append((rng.choice(GATES1), (rng.randrange(n),)))
    return ops
