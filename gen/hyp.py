"""Hypothesis strategies producing plain-data cases (JSON-able), built constructively (no filtering)."""
from hypothesis import strategies as st

from oracle import pauli, lc, coupling
from gen import members, sweep

GATE1 = ["id", "x", "y", "z", "h", "s", "sdg"]
GATE2 = ["cx", "cz", "swap"]


def config_strategy(ns=(2, 3, 4, 5, 6)):
    return st.sampled_from([c for c in coupling.CONFIGS if c[0] in ns])


@st.composite
def member_gens(draw, n, signs=True):
    """signed generators of a constructed member of a drawn LC class + its construction"""
    reps = members.orbit_reps(n)
    orbit = draw(st.sampled_from(reps))
    adj = lc.adj_from_gid(n, orbit)
    for v in draw(st.lists(st.integers(0, n - 1), max_size=2 * n)):
        adj = lc.local_complement(n, adj, v)
    gid = lc.gid_from_adj(n, adj)
    gens = lc.graph_state_gens(n, gid)
    layer = []
    for q in range(n):
        for g in draw(st.sampled_from(members.LOCAL_WORDS)):
            layer.append((g, (q,)))
    gens = [pauli.propagate(g, layer) for g in gens]
    for (i, j, sw) in draw(st.lists(st.tuples(st.integers(0, n - 1), st.integers(0, n - 1), st.booleans()), max_size=3 * n)):
        if i == j:
            continue
        if sw:
            gens[i], gens[j] = gens[j], gens[i]
        else:
            gens[i] = pauli.mul(gens[i], gens[j])
    gens = [(0, g[1], g[2]) for g in gens]
    if signs:
        sv = draw(st.integers(0, (1 << n) - 1))
        gens = members.apply_signs(gens, sv)
    canonical_graph = gid if (not layer and [tuple(g) for g in gens] == lc.graph_state_gens(n, gid)) else None
    return gens, orbit, canonical_graph


@st.composite
def stabilizer_case(draw, ns=(2, 3, 4, 5, 6)):
    n, name = draw(config_strategy(ns))
    gens, orbit, cg = draw(member_gens(n))
    fmt = draw(st.sampled_from(sweep.applicable_formats(gens, n, cg)))
    case = {"n": n, "connectivity": name, "strings": sweep.strings(gens, n), "format": fmt, "orbit": orbit}
    if fmt == "graph":
        case["graph_gid"] = cg
    return case


@st.composite
def clifford_ops(draw, n, max_len=60, allow_macros=True):
    """gate list over the documented vocabulary {id,x,y,z,h,s,sdg,cx,cz,swap} with redundant patterns drawn as macros"""
    ops = []
    length = draw(st.integers(0, max_len))
    if allow_macros and draw(st.integers(0, 5)) == 0:
        # a leading Pauli layer as repeated sign corrections composed in front of a circuit leave it: mostly X, qubits may repeat
        for _ in range(draw(st.integers(1, n + 2))):
            ops.append([draw(st.sampled_from(["x", "x", "x", "z", "y"])), [draw(st.integers(0, n - 1))]])
    style = draw(st.sampled_from(["mixed", "mostly-local", "entangling"]))
    p2 = {"mixed": 3, "mostly-local": 1, "entangling": 6}[style]
    while len(ops) < length:
        kind = draw(st.integers(0, 9))
        if allow_macros and kind == 9:
            m = draw(st.sampled_from(["hh", "cxcx", "swapchain", "ssss", "ident", "swap3cx", "hsh", "cy", "paulirun"]))
            if m == "hh":
                q = draw(st.integers(0, n - 1)); ops += [["h", [q]], ["h", [q]]]
            elif m == "ssss":
                q = draw(st.integers(0, n - 1)); ops += [["s", [q]]] * 4
            elif m == "ident":
                q = draw(st.integers(0, n - 1)); ops += [["id", [q]]]
            elif m == "hsh":          # sqrt(X) or its inverse in the documented vocabulary (written as sx / sxdg when form_salt is set)
                q = draw(st.integers(0, n - 1)); ops += [["h", [q]], [draw(st.sampled_from(["s", "sdg"])), [q]], ["h", [q]]]
            elif m == "paulirun":     # a Pauli layer, e.g. from twirling (written as one `pauli` instruction when form_salt is set)
                qs = draw(st.permutations(list(range(n))))[:draw(st.integers(min(2, n), n))]
                ops += [[draw(st.sampled_from(["x", "y", "z"])), [q]] for q in qs]
            elif n >= 2:
                a = draw(st.integers(0, n - 1)); b = draw(st.integers(0, n - 2)); b = b if b < a else b + 1
                if m == "cxcx":
                    ops += [["cx", [a, b]], ["cx", [a, b]]]
                elif m == "swap3cx":      # a SWAP written in the CX basis, as routing / transpilation produces it
                    ops += [["cx", [a, b]], ["cx", [b, a]], ["cx", [a, b]]]
                elif m == "cy":           # controlled-Y in the documented vocabulary
                    ops += [["sdg", [b]], ["cx", [a, b]], ["s", [b]]]
                else:
                    ops += [["swap", [a, b]], ["swap", [b, a]]]
        elif n >= 2 and kind < p2:
            a = draw(st.integers(0, n - 1)); b = draw(st.integers(0, n - 2)); b = b if b < a else b + 1
            ops.append([draw(st.sampled_from(GATE2)), [a, b]])
        else:
            ops.append([draw(st.sampled_from(GATE1)), [draw(st.integers(0, n - 1))]])
    return ops


@st.composite
def circuit_case(draw, ns=(2, 3, 4, 5, 6), max_len=60):
    n, name = draw(config_strategy(ns))
    kind = draw(st.sampled_from(["random", "random", "graph+local", "routed", "almost-routed", "cheap-with-swaps"]))
    if kind == "random":
        ops = draw(clifford_ops(n, max_len))
    elif kind == "cheap-with-swaps":
        # very short entangling circuits that move qubits around with SWAPs between ARBITRARY qubits: cheaper (swap = 3) than what
        # the connectivity-respecting optimum for the resulting state may cost -- an input that leaves "nothing to gain"
        edges = sorted(coupling.edge_set(n, name))
        ops = [["h", [q]] for q in range(n) if draw(st.booleans())]
        for _ in range(draw(st.integers(1, 3))):
            if draw(st.booleans()) and n >= 2:
                a = draw(st.integers(0, n - 1)); b = draw(st.integers(0, n - 2)); b = b if b < a else b + 1
                ops.append(["swap", [a, b]])
            else:
                a, b = draw(st.sampled_from(edges))
                if draw(st.booleans()):
                    a, b = b, a
                ops.append([draw(st.sampled_from(["cx", "cz"])), [a, b]])
            if draw(st.integers(0, 2)) == 0:
                ops.append([draw(st.sampled_from(["h", "s"])), [draw(st.integers(0, n - 1))]])
    elif kind == "almost-routed":
        # CX / CZ only on coupled pairs, but SWAPs between arbitrary qubits (a circuit routed by hand except for its permutations)
        edges = sorted(coupling.edge_set(n, name))
        ops = []
        for _ in range(draw(st.integers(1, min(10, max_len)))):
            r = draw(st.integers(0, 5))
            if r == 0 and n >= 2:
                a = draw(st.integers(0, n - 1)); b = draw(st.integers(0, n - 2)); b = b if b < a else b + 1
                ops.append(["swap", [a, b]])
            elif r <= 2:
                a, b = draw(st.sampled_from(edges))
                if draw(st.booleans()):
                    a, b = b, a
                ops.append([draw(st.sampled_from(["cx", "cz"])), [a, b]])
            else:
                ops.append([draw(st.sampled_from(["h", "s", "sdg", "h", "x", "z"])), [draw(st.integers(0, n - 1))]])
    elif kind == "routed":
        # a circuit that already respects the connectivity: few two-qubit gates (swaps included), all on coupled pairs
        edges = sorted(coupling.edge_set(n, name))
        ops = []
        for _ in range(draw(st.integers(1, min(12, max_len)))):
            if draw(st.integers(0, 2)) == 0:
                a, b = draw(st.sampled_from(edges))
                if draw(st.booleans()):
                    a, b = b, a
                ops.append([draw(st.sampled_from(GATE2)), [a, b]])
            else:
                ops.append([draw(st.sampled_from(["h", "s", "sdg", "h", "x", "z"])), [draw(st.integers(0, n - 1))]])
    else:
        gid = draw(st.integers(0, (1 << (n * (n - 1) // 2)) - 1))
        ops = [["h", [q]] for q in range(n)] + [["cz", list(e)] for e in lc.edges_from_gid(n, gid)]
        for q in range(n):
            for g in draw(st.sampled_from(members.LOCAL_WORDS)):
                ops.append([g, [q]])
            for g in draw(st.sampled_from(members.PAULI_WORDS)):
                ops.append([g, [q]])
    case = {"n": n, "connectivity": name, "ops": ops, "format": "circuit"}
    extra = draw(st.integers(0, 5))
    if extra == 0 and n >= 2:
        cuts = sorted(set(draw(st.lists(st.integers(1, n - 1), min_size=1, max_size=2))))
        case["registers"] = [b - a for a, b in zip([0] + cuts, cuts + [n])]
    elif extra == 1:
        case["metadata"] = {"experiment": "tag", "shots": 100}
    return case
