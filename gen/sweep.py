"""Shared subject generation for the circuit-level sweeps (C01, C02, C03, C04, C12).

A subject is a valid stabilizer presented as n signed generators (s, x, z) in some basis, plus the way it
is handed to the library (input format)."""
import numpy as np

import framework as fw
import libif
from oracle import pauli, lc, groups, coupling
from gen import members

FORMATS_SIGNED = ["strings+sign", "strings-minimal", "matrices+phases", "matrices+phases-int64", "matrices+phases-bool",
                  "matrices+phases-uint8", "matrices+phases-fortran", "matrices+phases-view-readonly", "matrices+phases-mixed-dtypes"]
FORMATS_PLUS = ["strings-nosign", "matrices-nophase", "matrices-nophase-int64"]


def applicable_formats(gens, n, graph_gid=None):
    f = list(FORMATS_SIGNED)
    if all(g[0] == 0 for g in gens):
        f += FORMATS_PLUS
        if graph_gid is not None and [tuple(g) for g in gens] == lc.graph_state_gens(n, graph_gid):
            f.append("graph")
    return f


def make_stabilizer(n, gens, fmt, graph_gid=None, validate=False):
    L = libif.lib()
    if fmt == "strings+sign":
        return L.Stabilizer(libif.paulis_to_strings(gens, n, "always"), validate=validate)
    if fmt == "strings-minimal":
        return L.Stabilizer(libif.paulis_to_strings(gens, n, "minimal"), validate=validate)
    if fmt == "strings-nosign":
        return L.Stabilizer(libif.paulis_to_strings(gens, n, "never"), validate=validate)
    if fmt.startswith("matrices"):
        dtype = np.int64 if fmt.endswith("int64") else (np.bool_ if fmt.endswith("bool") else (np.uint8 if fmt.endswith("uint8") else np.int8))
        R, S, ph = libif.paulis_to_matrices(gens, n, dtype=np.int8)
        R, S, ph = R.astype(dtype), S.astype(dtype), ph.astype(dtype)
        if fmt.endswith("mixed-dtypes"):     # an int8 X matrix next to a float Z matrix and 64-bit signs
            R, S, ph = R.astype(np.int8), S.astype(np.float64), ph.astype(np.int64)
        if fmt.endswith("fortran"):          # column-major memory layout
            R, S = np.asfortranarray(R), np.asfortranarray(S)
        elif fmt.endswith("view-readonly"):  # non-contiguous read-only views into larger arrays (e.g. slices of a table of many stabilizers)
            big = np.zeros((3, 2 * n + 1, 2 * n + 1), dtype=dtype)
            big[0, 1:2 * n:2, 0:2 * n:2] = R
            big[1, 1:2 * n:2, 0:2 * n:2] = S
            big[2, 0, 1:2 * n:2] = ph
            big.setflags(write=False)
            R, S, ph = big[0, 1:2 * n:2, 0:2 * n:2], big[1, 1:2 * n:2, 0:2 * n:2], big[2, 0, 1:2 * n:2]
        if "nophase" in fmt:
            return L.Stabilizer((R, S), validate=validate)
        return L.Stabilizer((R, S, ph), validate=validate)
    if fmt == "graph":
        a = np.zeros((n, n), dtype=np.int8)
        for (i, j) in lc.edges_from_gid(n, graph_gid):
            a[i, j] = a[j, i] = 1
        return L.Stabilizer(L.Graph(a), validate=validate)
    raise ValueError(fmt)


def sign_vectors(n, mode, rng):
    """mode 'all' -> every vector; integer k -> all-plus, all-minus and k-2 drawn (k >= 2); 1 -> one drawn"""
    if mode == "all":
        return list(range(1 << n))
    k = int(mode)
    if k == 1:
        return [rng.randrange(1 << n)]
    out = [0, (1 << n) - 1]
    while len(out) < min(k, 1 << n):
        v = rng.randrange(1 << n)
        if v not in out:
            out.append(v)
    return out


def enum_subjects(n, shard_list, seed, tag):
    """every group of the listed enumeration shards; odd-hash groups are presented in a random generator basis"""
    for sh in shard_list:
        for rows in groups.enum_shard(n, (tuple(sh[0]), sh[1])):
            gens = groups.to_paulis(rows, n)
            h = fw.h64(tag, seed, n, rows)
            rng = fw.rng_for(tag, seed, n, rows)
            mixed = bool(h & 1)
            if mixed:
                gens = members.random_basis_change(gens, rng)
            yield gens, rng, {"source": "enumerated", "mixed_basis": mixed}


def enum_shards(n, parts):
    by_row = n >= 5
    sh = [[list(P), r] for (P, r) in groups.shards(n, by_first_row=by_row)]
    return fw.split(sh, parts)


def member_subjects(n, orbits, k, seed, tag):
    for o in orbits:
        for i in range(k):
            rng = fw.rng_for(tag, seed, n, o, i)
            # generator presentation rotates over classes and members: densely mixed / lightly mixed and reordered / sparse graph-like / heaviest group elements / CSS form
            style = [True, "light", False, "heavy", "css", "uniform"][(o + i) % 6]
            gens, info = members.member(n, o, rng, signs="plus", mix=style)
            yield gens, rng, {"source": "class-member", "orbit": o, "member_graph": info["graph"], "index": i, "mixing": str(style)}


def class_label(n, gens):
    return lc.orbit_of(gens, n)


def strings(gens, n):
    return [pauli.to_str(g, n) for g in gens]


def configs(n):
    return [name for (m, name) in coupling.CONFIGS if m == n]
